"""C02 — all backends compute the same function for the same model (DESIGN §4 C02)."""
from __future__ import annotations

import ast

import sympy as sp

from engine import AnalysisError, symx
from engine.srcmodel import walk_shallow, norm
from engine.util import normalise, call_name, fstring_template
from . import solvers as S
from . import helpers as H

PROPERTY = "C02"
EXPLANATION = (
    "Numerical agreement of four backends for all models is not decidable statically.  Decided: agreement between the *sibling "
    "implementations* the shared code generator selects per backend - the code the pinned suite (numpy only) never runs.  "
    "R1 every source-defined implementation of registry key `interp` (Torch def string, Fortran template; NumPy/JAX bind the library "
    "interp = reference) normalises to the linear interpolant between two adjacent samples, reads every local it assigns and depends "
    "on the query point.  R2 all overrides of _solve_euler/_solve_heun reduce (symbolic execution of one step, with the backend's "
    "buffer-aliasing semantics) to the same step summary: stage times, update polynomial, record cadence.  R3 every fixed-step "
    "sibling feeds or refuses a delay history.  R4 temporary toggles of the index base (_start_idx) are restored on all exits and the "
    "index base is added exactly once by _process_idx.  R5 helper definitions stored under the same registry key agree across "
    "backends after normalisation (python-syntax helpers: wsum, interp_rows, sigmoid) and each def string agrees with its numpy twin.  "
    "R6 every python-target hook that renders an indexed assignment (add_var_update, _format_assignment, emit_local_array_assign) emits an "
    "assignment (in place or functional .at[].set), never an accumulation.  R8 a process-global precision switch (jax_enable_x64) is only ever turned on by a backend (constant True), never set to a per-instance value.  R1 also reads the index-range guards of the python interpolation helper as integer constraints (interpolate only inside the grid, fall back to a sample only when the bracket leaves it).  NOT decided: numerical agreement of library functions, float32/float64 effects, Fortran declarations/line wrapping, "
    "diffrax/scipy tolerances, Julia/Matlab helper bodies (foreign syntax; listed as information)."
)
RULE_TEXT = ("instances = registry entries and solver overrides resolved from the source; non-trivial = decided by algebraic "
             "normal form or symbolic step execution")
ASSUMPTIONS = ["numpy.interp / jax.numpy.interp implement linear interpolation with clamping (library reference).",
               "Fortran helper expressions are read through Python's expression grammar (a(i) parses as a call = index)."]


def r1_interp(ctx, rid):
    for be in ("base", "torch", "jax", "fortran", "julia", "matlab"):
        reg = H.Registry(ctx, be)
        if "interp" not in reg.entries:
            if be in ("base", "fortran"):
                raise AnalysisError(f"{rid}: registry {reg.name} has no `interp` entry")
            continue
        src = reg.def_source("interp")
        if src is None:
            lib = reg.library_binding("interp")
            if lib is None and be == "base":
                raise AnalysisError(f"{rid}: base `interp` is no longer bound to a library function")
            if lib is not None and lib.split(".")[-1] == "interp":
                ctx.ok(rid, None, None, f"{be}: `interp` bound to library {lib} (reference)", {"library": lib},
                       label=f"{reg.module.rel}::{reg.name}['interp']", nontrivial=False)
                ctx.obs[-1].construct = f"{reg.module.rel}::{reg.name}['interp']"
                ctx.obs[-1].loc = f"{reg.module.rel}:{reg.stmt.lineno}"
            else:
                raise AnalysisError(f"{rid}: {reg.name}['interp'] has neither a readable definition nor a library binding")
            continue
        text, st, kind = src
        construct = f"{reg.module.rel}::{reg.name}['interp'] helper"
        loc = f"{reg.module.rel}:{st.lineno}"
        if kind == "foreign":
            ob = ctx.info(rid, None, None, f"{be}: helper is written in the target language; not parsed (backend outside the property's scope)")
            ob.construct, ob.loc = construct, loc
            continue
        if kind == "pydef":
            good, why, facts = H.check_py_interp(H.parse_pydef(text))
        else:
            good, why, facts = H.check_fortran_interp(text)
        ob = (ctx.ok if good else ctx.violation)(rid, None, None, f"{be}: {why}", facts)
        ob.construct, ob.loc = construct, loc


def r2_solver_siblings(ctx, rid):
    insts = S.solver_instances(ctx)
    by_name = {}
    for s in insts:
        by_name.setdefault(s.solver, []).append(s)
    for name, group in sorted(by_name.items()):
        ref = next((s for s in group if s.cls.name == "BaseBackend"), group[0])
        for s in group:
            facts = {"update": str(s.update_true), "reference_sibling": ref.f.qual, "reference_update": str(ref.update_true),
                     "stage_times": [str(t) for t in s.stage_times], "reference_stage_times": [str(t) for t in ref.stage_times]}
            if s is ref:
                # the reference itself must be the textbook step under its own aliasing semantics
                good = sp.simplify(s.update_true - S.reference_update(name, S.TAU)) == 0 or \
                    (name == "_solve_heun" and sp.simplify(s.update_true - S.reference_update(name, S.TAU + 1)) == 0)
                if good:
                    ctx.ok(rid, s.f, s.update_stmt, f"reference sibling computes the {name[7:]} step", facts, label="step polynomial")
                else:
                    ctx.violation(rid, s.f, s.update_stmt, f"{s.f.qualname} does not compute the {name[7:]} step once buffer aliasing is "
                                                           f"accounted for", facts, label="step polynomial")
                continue
            # stage times
            if [sp.simplify(a - b) for a, b in zip(s.stage_times, ref.stage_times)] != [0] * len(ref.stage_times) \
                    or len(s.stage_times) != len(ref.stage_times):
                diff = [(str(a), str(b)) for a, b in zip(s.stage_times, ref.stage_times) if sp.simplify(a - b) != 0]
                ctx.violation(rid, s.f, s.call_nodes[-1], f"{s.f.qualname} evaluates a stage at a different time argument than "
                                                          f"{ref.f.qualname}: {diff} (time-dependent terms, e.g. extrinsic inputs, differ between backends)",
                              facts, label="stage times")
            else:
                ctx.ok(rid, s.f, s.call_nodes[-1], "stage time arguments agree with the reference sibling", facts, label="stage times")
            # update polynomial modulo the stage-time difference: substitute the reference's stage times
            upd = s.update_true
            for a, b in zip(s.stage_times, ref.stage_times):
                if sp.simplify(a - b) != 0:
                    upd = upd.subs(a, b)
            if sp.simplify(upd - ref.update_true) == 0:
                ctx.ok(rid, s.f, s.update_stmt, "update polynomial agrees with the reference sibling", facts, label="step polynomial")
            else:
                ctx.violation(rid, s.f, s.update_stmt, f"update of {s.f.qualname} differs from {ref.f.qualname}", facts, label="step polynomial")
            # record cadence
            a = (s.store.get("stride_expr"), s.rows_expr)
            b = (ref.store.get("stride_expr"), ref.rows_expr)
            own = S.cadence_defects(s, rid) if a == b else []
            if a == b and own and not S.cadence_defects(ref, rid):
                ctx.violation(rid, s.f, s.store.get("node") or s.f.node,
                              f"{s.f.qualname} does not keep the sample-then-step cadence of {ref.f.qualname} ({', '.join(own)}): the state and the "
                              f"time counter handed from one stored block to the next must be those the last step ended on, otherwise "
                              f"time-dependent terms (extrinsic inputs, histories) are read at other positions than on the reference backend",
                              {"defects": own}, label="record cadence")
            elif a == b:
                ctx.ok(rid, s.f, s.store.get("node") or s.f.node, "stride, row count and block hand-over agree with the reference sibling",
                       {"stride,rows": a}, label="record cadence")
            else:
                ctx.violation(rid, s.f, s.store.get("node") or s.f.node, f"stride/rows {a} differ from the reference sibling's {b}",
                              label="record cadence")


def r3_history(ctx, rid):
    from .c10 import r3_solvers_feed_history
    r3_solvers_feed_history(ctx, rid)


def r4_index_base(ctx, rid):
    """Toggles of `self._start_idx` are restored on all exits; _process_idx adds the base exactly once per form."""
    n = 0
    for cls in list(S.backend_classes(ctx)) + [ctx.repo.get_class("pyrates/backend/_one_based.py", "OneBasedCodegenMixin")]:
        for f in cls.methods.values():
            if f.name == "__init__":
                continue
            selfn = f.self_name
            sets = [st for st in walk_shallow(f.node) if isinstance(st, ast.Assign) and any(
                isinstance(t, ast.Attribute) and t.attr == "_start_idx" and isinstance(t.value, ast.Name) and t.value.id == selfn
                for t in st.targets)]
            if not sets:
                continue
            n += 1
            # pattern: saved = self._start_idx ; self._start_idx = X ; try: ... finally: self._start_idx = saved
            in_finally = [st for st in sets if any(isinstance(a, ast.Try) and any(st is x or _contains(x, st) for x in a.finalbody)
                                                   for a in _ancestors(st))]
            toggles = sorted([st for st in sets if st not in in_finally], key=lambda st: st.lineno)
            handled = set()
            for tg in toggles:
                if id(tg) in handled:
                    continue
                # the next sibling statement must be a try whose finally restores
                parent_body = _body_of(tg)
                i = parent_body.index(tg)
                nxt = parent_body[i + 1] if i + 1 < len(parent_body) else None
                restored = isinstance(nxt, ast.Try) and any(st in in_finally and _contains_any(nxt.finalbody, st) for st in sets)
                saved_ok = False
                if restored:
                    rest = [st for st in in_finally if _contains_any(nxt.finalbody, st)][0]
                    if isinstance(rest.value, ast.Name):
                        # saved name assigned from self._start_idx before the toggle
                        for prev in parent_body[:i]:
                            if isinstance(prev, ast.Assign) and any(isinstance(t, ast.Name) and t.id == rest.value.id for t in prev.targets) \
                                    and isinstance(prev.value, ast.Attribute) and prev.value.attr == "_start_idx":
                                saved_ok = True
                if restored and saved_ok:
                    ctx.ok(rid, f, tg, "index-base toggle is restored in a finally block from the saved value")
                    continue
                # restore without try/finally in the same block, before any return: an exception in between aborts compilation
                # loudly and the backend object is discarded (DESIGN C02-R4) -> informational
                later = [st for st in parent_body[i + 1:] if st in toggles]
                rets_between = [st for st in parent_body[i + 1: parent_body.index(later[0])] if isinstance(st, ast.Return)] if later else []
                if later and not rets_between:
                    handled.add(id(later[0]))
                    ctx.info(rid, f, tg, "toggle restored by a plain assignment without try/finally (an exception aborts compilation; informational)")
                else:
                    ctx.violation(rid, f, tg, "index-base toggle is not restored before the function returns: a later emission would use "
                                              "the wrong base")
    base = ctx.repo.get_func(S.BASE_REL, "BaseBackend._process_idx")
    # each arithmetic branch adds self._start_idx exactly once
    for st in walk_shallow(base.node):
        if isinstance(st, ast.Return) and isinstance(st.value, ast.JoinedStr):
            t = fstring_template(st.value)
            cnt = t.count("self._start_idx")
            if "+" in t:
                if cnt == 1:
                    ctx.ok(rid, base, st, "literal index gets the backend's start index added exactly once", {"template": t})
                else:
                    ctx.violation(rid, base, st, f"start index added {cnt} times in `{t}`")
    ctx.notes.append(f"{rid}: {n} functions toggle _start_idx")


def _ancestors(n):
    p = getattr(n, "_parent", None)
    while p is not None:
        yield p
        p = getattr(p, "_parent", None)


def _contains(outer, inner):
    return any(x is inner for x in ast.walk(outer))


def _contains_any(stmts, inner):
    return any(_contains(s, inner) for s in stmts)


def _body_of(st):
    p = getattr(st, "_parent", None)
    for field in ("body", "orelse", "finalbody"):
        b = getattr(p, field, None)
        if isinstance(b, list) and any(x is st for x in b):
            return b
    return []


def _norm_fn(fn: ast.FunctionDef) -> str:
    """α-normalised dump of a helper function: parameter names replaced by positions."""
    ren = {a.arg: f"p{i}" for i, a in enumerate(fn.args.args)}
    from engine.inline import clone
    fn2 = clone(fn)
    for n in ast.walk(fn2):
        if isinstance(n, ast.Name) and n.id in ren:
            n.id = ren[n.id]
        if isinstance(n, ast.arg):
            if n.arg in ren:
                n.arg = ren[n.arg]
            n.annotation = None          # type hints and docstrings do not change the function
            n.type_comment = None
    fn2.name = "_"
    fn2.decorator_list = []
    fn2.returns = None
    fn2.type_comment = None
    if fn2.body and isinstance(fn2.body[0], ast.Expr) and isinstance(fn2.body[0].value, ast.Constant) and isinstance(fn2.body[0].value.value, str) \
            and len(fn2.body) > 1:
        fn2.body = fn2.body[1:]
    return ast.dump(fn2, include_attributes=False)


def _semantic_class(key: str, fn: ast.FunctionDef, what: str):
    """Semantic normal form of a helper whose spelling may legitimately vary (None: no classifier for this key)."""
    if key in ("broadcast_pre", "broadcast_post"):
        from .c16 import _data_axis
        return ("data axis", _data_axis(fn, what))
    if key == "wsum":
        from .c16 import _wsum_reduced_axis
        return ("reduced axis", _wsum_reduced_axis(fn, what)[0])
    if key == "interp_rows":
        from .c08 import _check_interp_rows
        good, why = _check_interp_rows(fn)
        return ("row-wise interp", bool(good))
    return None


def _same_helper(key, fn_a, fn_b, what_a, what_b):
    """(equal?, how) - syntactic equality after α-normalisation, else equality of the semantic class;
    AnalysisError when the two spellings differ and nothing can compare them."""
    if _strip_np(_norm_fn(fn_a)) == _strip_np(_norm_fn(fn_b)):
        return True, "identical after normalisation"
    ca, cb = _semantic_class(key, fn_a, what_a), _semantic_class(key, fn_b, what_b)
    if ca is None or cb is None:
        raise AnalysisError(f"C02-R5: helpers `{key}` ({what_a} vs {what_b}) are spelled differently and no semantic comparison is available")
    return ca == cb, f"{ca[0]}: {ca[1]} vs {cb[1]}"


def r5_helper_agreement(ctx, rid):
    regs = {be: H.Registry(ctx, be) for be in ("base", "torch", "jax")}
    base = regs["base"]
    # (a) def string vs numpy twin in base_funcs
    n_twins = 0
    for key, e in base.entries.items():
        d, fn = e.get("def"), e.get("func")
        if isinstance(d, ast.Name) and isinstance(fn, ast.Name) and fn.id in base.module.functions:
            s = base.module_string(d.id)
            if s is None:
                continue
            n_twins += 1
            text, st = s
            helper = H.parse_pydef(text)
            twin = base.module.functions[fn.id].node
            same, how = _same_helper(key, helper, twin, f"def string {d.id}", f"numpy twin {fn.id}")
            construct = f"{base.module.rel}::{base.name}['{key}'] def/func twin"
            if same:
                ob = ctx.ok(rid, None, None, f"def string `{d.id}` and its numpy twin `{fn.id}` are the same function ({how})")
            else:
                ob = ctx.violation(rid, None, None, f"def string `{d.id}` (emitted into generated code) and `{fn.id}` (used to evaluate the parsed "
                                                    f"expression) differ: the two evaluation paths disagree",
                                   {"def": ast.unparse(helper), "func": ast.unparse(twin)})
            ob.construct, ob.loc = construct, f"{base.module.rel}:{st.lineno}"
    if n_twins < 5:
        raise AnalysisError(f"{rid}: only {n_twins} def/func twins found in base_funcs (7 on the pinned tree)")
    # (b) same key, python def strings in several registries
    for key in sorted(set().union(*[r.entries.keys() for r in regs.values()])):
        defs = {}
        for be, r in regs.items():
            src = r.def_source(key)
            if src and src[2] == "pydef" and key != "interp":
                defs[be] = (H.parse_pydef(src[0]), src[1], r)
        if len(defs) < 2:
            continue
        ref_be = "base" if "base" in defs else sorted(defs)[0]
        for be, (fn, st, r) in defs.items():
            if be == ref_be:
                continue
            construct = f"{r.module.rel}::{r.name}['{key}'] vs {ref_be}"
            same, how = _same_helper(key, fn, defs[ref_be][0], f"{be} helper", f"{ref_be} helper")
            if same:
                ob = ctx.ok(rid, None, None, f"{be} helper `{key}` agrees with the {ref_be} helper ({how})")
            else:
                ob = ctx.violation(rid, None, None, f"{be} helper `{key}` differs from the {ref_be} helper of the same registry key",
                                   {be: ast.unparse(fn), ref_be: ast.unparse(defs[ref_be][0])})
            ob.construct, ob.loc = construct, f"{r.module.rel}:{st.lineno}"
    # (c) sigmoid: def string (base) vs lambdas (torch/jax/fortran) normalise to 1/(1+exp(-x))
    x = sp.Symbol("x")
    ref = 1 / (1 + sp.exp(-x))

    def leaf(n):
        if isinstance(n, ast.Call) and call_name(n) == "exp" and len(n.args) == 1:
            return sp.exp(symx.to_sympy(n.args[0], leaf=leaf))
        return None
    s = base.module_string("sigmoid")
    items = []
    if s:
        fn = H.parse_pydef(s[0])
        ret = [n for n in ast.walk(fn) if isinstance(n, ast.Return)][0]
        items.append(("base", base, s[1], ret.value, fn.args.args[0].arg))
    for be in ("torch", "jax", "fortran"):
        r = H.Registry(ctx, be)
        lam = r.module_lambda("sigmoid")
        if lam:
            items.append((be, r, lam[1], lam[0].body, lam[0].args.args[0].arg))
        elif "sigmoid" in r.module.functions:
            # the same helper written as a def with a single return
            g = r.module.functions["sigmoid"].node
            body = [b for b in g.body if not (isinstance(b, ast.Expr) and isinstance(b.value, ast.Constant))]
            if len(body) == 1 and isinstance(body[0], ast.Return) and body[0].value is not None and g.args.args:
                items.append((be, r, g, body[0].value, g.args.args[0].arg))
            else:
                raise AnalysisError(f"{rid}: {r.module.rel}::sigmoid is not a one-expression function (unrecognised form)")
    if len(items) < 3:
        raise AnalysisError(f"{rid}: sigmoid definitions vanished ({len(items)} found)")
    for be, r, st, body, arg in items:
        e = symx.to_sympy(body, leaf=leaf).subs(sp.Symbol(arg), x)
        construct = f"{r.module.rel}::sigmoid"
        if sp.simplify(e - ref) == 0:
            ob = ctx.ok(rid, None, None, f"{be} sigmoid normalises to 1/(1+exp(-x))", {"expr": str(e)})
        else:
            ob = ctx.violation(rid, None, None, f"{be} sigmoid is not the logistic function 1/(1+exp(-x))", {"expr": str(e)})
        ob.construct, ob.loc = construct, f"{r.module.rel}:{st.lineno}"


ASSIGN_HOOKS = ("add_var_update", "_format_assignment", "emit_local_array_assign")
FOREIGN_BACKENDS = ("JuliaBackend", "MatlabBackend")


def r6_assignment_hooks_assign(ctx, rid):
    """Every backend's hook that renders `lhs[idx] = rhs` must emit an *assignment* of rhs to the addressed slots
    (in place `lhs[idx] = rhs` or functional `lhs = lhs.at[idx].set(rhs)`); an accumulating form (`.at[].add`, `+=`)
    agrees with the other backends only while the slots are zero on entry.  The emitted text is evaluated per path
    (engine.templates: f-string / .format / % / concatenation, local string variables spliced in)."""
    import re
    from engine.templates import emissions
    n = 0
    for cls in S.backend_classes(ctx):
        for hook in ASSIGN_HOOKS:
            f = cls.methods.get(hook)
            if f is None:
                continue
            seen = set()
            for decisions, lines, ps in emissions(ctx, f, sinks=("add_code_line",), returns=(hook == "_format_assignment")):
                for em in lines:
                    c, t = em.stmt, em.template
                    if t is None:
                        if isinstance(em.arg, ast.Call) and call_name(em.arg) in ASSIGN_HOOKS:
                            continue        # delegates the rendering to another hook, which is checked itself
                        if em.kind == "return" and not isinstance(em.arg, (ast.JoinedStr, ast.BinOp, ast.Call)):
                            continue
                        raise AnalysisError(f"{rid}: {f.qual}: emitted text `{ast.unparse(em.arg)[:80]}` is not a recognisable string template")
                    key = (id(c), t)
                    if key in seen:
                        continue
                    seen.add(key)
                    if cls.name in FOREIGN_BACKENDS:
                        ctx.info(rid, f, c, f"{cls.name}: target-language assignment template `{t}` (not parsed)")
                        continue
                    n += 1
                    tt = re.sub(r"\s+", "", t)
                    H = r"(?:⟨[^⟩]*⟩)+"          # a run of holes (a name followed by its index string is two holes)
                    plain = re.fullmatch(rf"{H}(\[{H}\])?={H}", tt)
                    func = re.fullmatch(rf"({H})=({H})\.at\[{H}\]\.(\w+)\({H}\)", tt)
                    label = f"{cls.name}.{hook}: `{t}`"
                    if plain:
                        ctx.ok(rid, f, c, f"{cls.name}.{hook}: plain assignment `{t}`", {"template": t, "path": ps}, label=label)
                    elif func:
                        same = func.group(1) == func.group(2)
                        if func.group(3) == "set" and same:
                            ctx.ok(rid, f, c, f"{cls.name}.{hook}: functional assignment `{t}`", {"template": t, "path": ps}, label=label)
                        else:
                            ctx.violation(rid, f, c, f"{cls.name}.{hook} emits `{t}`: the addressed slots are "
                                                     f"{'updated with .' + func.group(3) + '()' if func.group(3) != 'set' else 're-bound to another array'} "
                                                     f"instead of being assigned (NumPy/Torch overwrite them): results differ whenever the slots are non-zero on entry",
                                          {"template": t}, label=label)
                    elif re.search(r"(\+=|-=|\*=)", tt):
                        ctx.violation(rid, f, c, f"{cls.name}.{hook} emits an augmented assignment `{t}` where the other backends assign", {"template": t},
                                      label=label)
                    else:
                        raise AnalysisError(f"{rid}: {f.qual}: unrecognised assignment template `{t}`")
    if n < 3:
        raise AnalysisError(f"{rid}: only {n} python-target assignment templates found")


def _strip_np(dump: str) -> str:
    # np.einsum vs einsum: the def string relies on `from numpy import einsum`; the twin calls np.einsum
    import re
    return re.sub(r"Attribute\(value=Name\(id='np', ctx=Load\(\)\), attr='(\w+)', ctx=Load\(\)\)", r"Name(id='\1', ctx=Load())", dump)



def r_str_membership(ctx, rid):
    """The argument lists handed to generated functions are filtered by membership in collections, never in strings
    (shared lint, see _strmember_lint): a substring test silently drops arguments whose name is a substring of e.g. 'dy'."""
    from ._strmember_lint import membership_in_string
    membership_in_string(ctx, rid)


GLOBAL_SWITCHES = {
    # call name -> (position of the value argument, what it switches)
    "set_default_dtype": (0, "torch's process-wide default dtype"),
    "set_default_tensor_type": (0, "torch's process-wide default tensor type"),
}


def r8_global_precision_switches(ctx, rid):
    """Process-global numeric switches touched by a backend (`jax.config.update("jax_enable_x64", v)`, torch default dtype) affect
    every function compiled earlier in the process, so a backend instance may only ever turn 64-bit mode ON (a constant True,
    typically under a test of its own precision argument) - never set it to a per-instance value, which would switch it off again
    for float64 models that are still in use and make JAX disagree with the other backends."""
    n = 0
    for cls in S.backend_classes(ctx):
        for f in cls.methods.values():
            for c in walk_shallow(f.node):
                if not isinstance(c, ast.Call):
                    continue
                value = what = None
                if call_name(c) == "update" and c.args and isinstance(c.args[0], ast.Constant) and isinstance(c.args[0].value, str) \
                        and c.args[0].value.startswith("jax_enable_x64"):
                    value = c.args[1] if len(c.args) > 1 else next((k.value for k in c.keywords if k.arg in ("val", "value")), None)
                    what = "JAX's process-wide 64-bit mode"
                elif call_name(c) in GLOBAL_SWITCHES and c.args:
                    value, what = c.args[GLOBAL_SWITCHES[call_name(c)][0]], GLOBAL_SWITCHES[call_name(c)][1]
                if what is None:
                    continue
                n += 1
                label = f"{cls.name}.{f.name}: global switch {call_name(c)}"
                if what.startswith("JAX"):
                    v = normalise(ctx, f, value) if value is not None else None
                    if isinstance(v, ast.Constant) and v.value is True:
                        ctx.ok(rid, f, c, "64-bit mode is only ever switched on (constant True)", label=label)
                    elif isinstance(v, ast.Constant):
                        ctx.violation(rid, f, c, f"{what} is set to the constant {v.value!r}: float64 models compiled earlier in the process silently "
                                                 f"compute in float32 afterwards", label=label)
                    else:
                        ctx.violation(rid, f, c, f"{what} is set to a per-instance value `{ast.unparse(value)[:60]}`: creating a float32 backend "
                                                 f"switches it off for float64 models that are still in use (their results then differ from the "
                                                 f"NumPy/Torch backends)", label=label)
                else:
                    ctx.info(rid, f, c, f"sets {what} (listed; the value is a dtype, not a monotone switch)")
    for m in ctx.repo.modules.values():
        for st in m.tree.body:
            for c in ast.walk(st) if isinstance(st, (ast.Expr, ast.Assign)) else []:
                if isinstance(c, ast.Call) and call_name(c) == "update" and c.args and isinstance(c.args[0], ast.Constant) \
                        and isinstance(c.args[0].value, str) and c.args[0].value.startswith("jax_enable_x64"):
                    n += 1
                    ctx.info(rid, None, None, "module-level 64-bit switch at import time", construct=f"{m.rel}::jax_enable_x64 at import",
                             loc=f"{m.rel}:{c.lineno}")
    if n < 1:
        raise AnalysisError(f"{rid}: no use of a process-global precision switch found (JaxBackend.__init__ sets jax_enable_x64 on the pinned tree)")


def r9_number_operands_take_the_model_precision(ctx, rid):
    """A backend helper that wraps a plain Python number into a backend array (torch `as_tensor` / `tensor`, jax/numpy `asarray` /
    `array`) must give it the dtype of the array operand it is combined with: without `dtype=` the library default applies (float32
    on torch), so in a float64 model the constant 0.7 becomes 0.699999988 on that backend only."""
    regs = {be: H.Registry(ctx, be) for be in ("base", "torch", "jax")}
    n = 0
    for be, r in regs.items():
        for key in sorted(r.entries):
            src = r.def_source(key)
            if not src or src[2] != "pydef":
                continue
            fn = H.parse_pydef(src[0])
            params = [a.arg for a in fn.args.args]
            for c in ast.walk(fn):
                if isinstance(c, ast.Call) and call_name(c) in ("as_tensor", "tensor", "asarray", "array") and c.args \
                        and isinstance(c.args[0], ast.Name) and c.args[0].id in params and len(params) > 1:
                    n += 1
                    kws = {k.arg for k in c.keywords}
                    construct = f"{r.module.rel}::{r.name}['{key}'] number operand {ast.unparse(c)[:50]}"
                    if "dtype" in kws or len(c.args) > 1:
                        ob = ctx.ok(rid, None, None, f"`{ast.unparse(c)}` in helper `{key}` ({be}) passes the dtype of the array operand")
                    else:
                        ob = ctx.violation(rid, None, None, f"helper `{key}` ({be}) converts its operand with `{ast.unparse(c)}` - no dtype: a Python number "
                                                           f"becomes an array of the library's DEFAULT precision (float32 on torch) whatever the model's "
                                                           f"precision, so this backend computes with a rounded constant while the others do not")
                    ob.construct, ob.loc = construct, f"{r.module.rel}:{src[1].lineno}"
    if n == 0:
        ctx.ok(rid, None, None, "no backend helper converts a plain number operand into an array (nothing to decide)",
               construct="backend helper registries::number operands", loc="pyrates/backend/torch/torch_funcs.py:1", nontrivial=False)


RULES = [
    ("C02-R1", r1_interp, 3),
    ("C02-R2", r2_solver_siblings, 9),
    ("C02-R3", r3_history, 3),
    ("C02-R4", r4_index_base, 3),
    ("C02-R5", r5_helper_agreement, 10),
    ("C02-R6", r6_assignment_hooks_assign, 3),
    ("C02-R7", r_str_membership, 1),
    ("C02-R8", r8_global_precision_switches, 1),
    ("C02-R9", r9_number_operands_take_the_model_precision, 1),
]
