"""C15 — YAML, Python and inherited definitions of a model are equivalent (DESIGN §4 C15)."""
from __future__ import annotations

import ast

from engine import AnalysisError
from engine.srcmodel import walk_shallow, norm, dotted
from engine.util import call_name, contains, single_def_value
from engine.cfg import stmt_of

PROPERTY = "C15"
PARSER = "pyrates/backend/parser.py"
FC = "pyrates/frontend/template/circuit.py"
FO = "pyrates/frontend/template/operator.py"
FG = "pyrates/frontend/template/operator_graph.py"
FD = "pyrates/frontend/dict.py"
FT = "pyrates/frontend/template/__init__.py"

EXPLANATION = (
    "Equality of dynamics between frontends / after a round trip is not decidable statically.  Decided: R1 identifier substitution "
    "keeps its left context - in every function of backend/parser.py that searches a string with .find() in a loop and re-binds the "
    "searched string to a suffix of itself, the token-boundary test for an occurrence at position 0 of the remainder must use a "
    "character carried over from before the cut (otherwise the tail of a longer identifier is replaced: 'rr' -> 'rX').  R2 what the dumper "
    "writes is what the constructors read and nothing with content is left out: keys written by frontend.dict.from_circuit/from_node/"
    "from_operator are parameters of the constructor that from_yaml calls with cls(**template_dict), and every content parameter of the "
    "constructor is written by the dumper.  R3 a derived template inherits every constructor field it does not override: each content "
    "parameter of __init__ is forwarded to the self.__class__(...) call of update_template (and to the in_place stores).  R4 equation "
    "edits go through the boundary-aware helper only (no str.replace on equations in _update_equation; the rule table keys "
    "replace/remove/append/prepend are each handled).  R5 the key under which a definition is stored in the dump dictionary is re-tested "
    "until it is unused or holds an equal definition (a while loop, not a single if).  R6 from_yaml derives through update_template of "
    "the loaded base and instantiates known classes with exactly the loaded dictionary.  R4 also: no replace/remove edit can run after an append/prepend edit of the same update (added text is not rewritten).  R10 equations given under `add` reach the derived template and are not iterated into the edit helper.  R11 what dict_from_yaml hands out shares no container with file content retained beyond the call (effect origins of its return value).  R12 no memo of the dumper is keyed by attributes (name, path, type) of the template object its entry is computed from.  NOT decided: dynamics of round-tripped models, "
    "relative path resolution on a file system, ruamel.yaml behaviour; a dumped operator variant gets a new name (op_num1) - a format "
    "limitation that is outside these rules."
)
RULE_TEXT = "instances = string-search loops in parser.py, dumper/constructor pairs, update_template of each template class"
ASSUMPTIONS = ["str.find / slicing have their documented meaning."]

NON_CONTENT = {"self", "name", "path", "description", "label"}


# ------------------------------------------------------------------------------------------------
def r1_left_context(ctx, rid):
    m = ctx.repo.get_module(PARSER)
    n_inst = 0
    for f in ctx.repo.all_functions([PARSER]):
        for loop in walk_shallow(f.node):
            if not isinstance(loop, ast.While):
                continue
            finds = [c for c in ast.walk(loop) if isinstance(c, ast.Call) and call_name(c) == "find" and isinstance(c.func, ast.Attribute)]
            pre_finds = [c for c in walk_shallow(f.node) if isinstance(c, ast.Call) and call_name(c) == "find" and isinstance(c.func, ast.Attribute)]
            if not finds and not pre_finds:
                continue
            # searched string: receiver of find (a Name, possibly sliced)
            recv = None
            for c in finds + pre_finds:
                r = c.func.value
                while isinstance(r, ast.Subscript):
                    r = r.value
                if isinstance(r, ast.Name):
                    recv = r.id
            if recv is None:
                continue
            n_inst += 1
            # is the searched string re-bound to a suffix of itself inside the loop?
            cuts = [st for st in ast.walk(loop) if isinstance(st, ast.Assign) and len(st.targets) == 1 and isinstance(st.targets[0], ast.Name)
                    and st.targets[0].id == recv and isinstance(st.value, ast.Subscript) and isinstance(st.value.value, ast.Name)
                    and st.value.value.id == recv and isinstance(st.value.slice, ast.Slice) and st.value.slice.lower is not None]
            if not cuts:
                # searched in place with a moving offset: the character left of an occurrence at i is S[i-1] for EVERY i > 0; "there
                # is no left neighbour" holds only for i == 0 - not for i == <offset>, where the left neighbour is the last character
                # of the previous occurrence
                bad_left = None
                for e in ast.walk(loop):
                    if isinstance(e, ast.IfExp) and isinstance(e.body, ast.Subscript) and isinstance(e.body.value, ast.Name) and e.body.value.id == recv \
                            and isinstance(e.body.slice, ast.BinOp) and isinstance(e.body.slice.op, ast.Sub) and isinstance(e.body.slice.right, ast.Constant) \
                            and e.body.slice.right.value == 1 and isinstance(e.body.slice.left, ast.Name) \
                            and isinstance(e.orelse, ast.Constant) and e.orelse.value == "":
                        i_name = e.body.slice.left.id
                        t = e.test
                        if isinstance(t, ast.Compare) and len(t.ops) == 1:
                            l, op, r = t.left, t.ops[0], t.comparators[0]
                            other = r if (isinstance(l, ast.Name) and l.id == i_name) else (l if isinstance(r, ast.Name) and r.id == i_name else None)
                            if isinstance(other, ast.Name) and any(isinstance(st, ast.Assign) and any(isinstance(x, ast.Name) and x.id == other.id
                                                                                                   for x in st.targets) for st in ast.walk(loop)):
                                bad_left = (e, other.id)
                if bad_left:
                    e, off = bad_left
                    ctx.violation(rid, f, e, f"`{ast.unparse(e)[:70]}`: the left neighbour of an occurrence is examined only when it lies behind the "
                                             f"moving offset `{off}`; an occurrence that begins exactly where the previous one ended (`rr` for the term "
                                             f"`r`) is treated as if it stood at the start of the string and the tail of a longer identifier is replaced",
                                  label=f"search loop over `{recv}`")
                    continue
                ctx.ok(rid, f, loop, f"`{recv}` is searched in place (never cut to a suffix): position 0 really is the start of the string",
                       label=f"search loop over `{recv}`")
                continue
            # characters of recv carried across the cut: name = recv[<index>] assigned inside the loop
            carried = {}
            for st in ast.walk(loop):
                if isinstance(st, ast.Assign) and len(st.targets) == 1 and isinstance(st.targets[0], ast.Name) \
                        and isinstance(st.value, ast.Subscript) and isinstance(st.value.value, ast.Name) and st.value.value.id == recv \
                        and not isinstance(st.value.slice, ast.Slice):
                    carried[st.targets[0].id] = st
            # the boundary decision: every name that (transitively, through assignments inside the loop) feeds a test of an
            # if-statement / conditional expression of the loop; it must read single characters of the searched string
            def reads_char(e):
                return any(isinstance(x, ast.Subscript) and isinstance(x.value, ast.Name) and x.value.id == recv and not isinstance(x.slice, ast.Slice)
                           for x in ast.walk(e))
            seeds_ = [st.test for st in ast.walk(loop) if isinstance(st, (ast.If, ast.IfExp))]
            names_in_tests, work, char_read, tests = set(), list(seeds_), False, []
            seen_defs = set()
            visited_exprs = []
            while work:
                e = work.pop()
                visited_exprs.append(e)
                if reads_char(e):
                    char_read = True
                    tests.append(e)
                for x in ast.walk(e):
                    if isinstance(x, ast.Name) and x.id not in names_in_tests:
                        names_in_tests.add(x.id)
                        for st in ast.walk(loop):
                            if isinstance(st, ast.Assign) and id(st) not in seen_defs and any(isinstance(t, ast.Name) and t.id == x.id for t in st.targets):
                                seen_defs.add(id(st))
                                work.append(st.value)
            if not char_read:
                tests = []
            # a carried character must (a) be taken before the cut in the same iteration and (b) feed the boundary test
            good = [nm for nm, st in carried.items() if nm in names_in_tests and nm != recv
                    and any(st.lineno <= c.lineno for c in cuts)]
            facts = {"searched": recv, "cut": [norm(c) for c in cuts], "carried": sorted(carried), "boundary_tests": [ast.unparse(t)[:100] for t in tests]}
            if not tests:
                raise AnalysisError(f"{rid}: {f.qual}: boundary test of the search loop not recognised")
            # the decision is about THIS occurrence: the searched string may enter it through single characters, slices and len() only;
            # a predicate about the whole string (endswith / startswith / count / find / index / `x in s`) is true or false for every
            # occurrence alike
            whole = []
            for t in list(seeds_) + [t_ for t_ in tests if not any(t_ is s_ for s_ in seeds_)]:
                for x in ast.walk(t):
                    if isinstance(x, ast.Call) and isinstance(x.func, ast.Attribute) and isinstance(x.func.value, ast.Name) and x.func.value.id == recv \
                            and x.func.attr in ("endswith", "startswith", "count", "find", "rfind", "index", "rindex", "partition", "rpartition", "split"):
                        whole.append(x)
                    if isinstance(x, ast.Compare) and len(x.ops) == 1 and isinstance(x.ops[0], (ast.In, ast.NotIn)) \
                            and isinstance(x.comparators[0], ast.Name) and x.comparators[0].id == recv:
                        whole.append(x)
            for wnode in whole:
                ctx.violation(rid, f, wnode, f"the token-boundary decision for one occurrence uses `{ast.unparse(wnode)[:50]}`, a predicate about the whole of "
                                             f"`{recv}`: it holds for every occurrence in the string alike, so an occurrence inside a longer identifier is "
                                             f"accepted whenever the string as a whole satisfies it", facts, label=f"whole-string predicate in the boundary test of `{recv}`")
            if good:
                ctx.ok(rid, f, cuts[0], f"the character before the cut is carried in `{good[0]}` and used by the boundary test", facts)
            else:
                ctx.violation(rid, f, cuts[0], f"`{recv}` is cut to its remainder inside the search loop, but the token-boundary test does not "
                                               f"use the character that preceded the cut: an occurrence at position 0 of the remainder is treated "
                                               f"like the start of the string (the tail of a longer identifier gets replaced, e.g. 'rr' -> 'rX')", facts)
    if n_inst < 2:
        raise AnalysisError(f"{rid}: only {n_inst} string-search loops found in {PARSER} (2 on the pinned tree)")


# ------------------------------------------------------------------------------------------------
def _field_is_mapping(ctx, init, p) -> bool:
    """does the constructor keep its parameter `p` as a mapping?  (`self.p = {}` / `dict(..)` / a dict comprehension, `p: dict`
    annotation, or the body iterates `p.items()`)"""
    for a in init.node.args.args + init.node.args.kwonlyargs:
        if a.arg == p and a.annotation is not None and "dict" in ast.unparse(a.annotation).lower():
            return True
    for n in walk_shallow(init.node):
        if isinstance(n, ast.Assign) and any(isinstance(t, ast.Attribute) and t.attr == p for t in n.targets) \
                and (isinstance(n.value, (ast.Dict, ast.DictComp)) or (isinstance(n.value, ast.Call) and call_name(n.value) in ("dict", "OrderedDict"))):
            return True
        if isinstance(n, ast.Call) and isinstance(n.func, ast.Attribute) and n.func.attr == "items" and isinstance(n.func.value, ast.Name) \
                and n.func.value.id == p:
            return True
    return False


def _ctor_params(ctx, rel, cls):
    c = ctx.repo.get_class(rel, cls)
    init = ctx.repo.lookup_method(c, "__init__")
    if init is None:
        raise AnalysisError(f"anchor vanished: {cls}.__init__")
    return c, init, [p for p in init.params if p not in NON_CONTENT and p != "kwargs"]


def _dump_keys(ctx, f):
    """(statement, keys) of the dictionary a dumper function hands to add_to_dict (a dict literal, possibly through a local)."""
    from engine.util import normalise
    from engine.cfg import stmt_of
    calls = [c for c in walk_shallow(f.node) if isinstance(c, ast.Call) and call_name(c) == "add_to_dict" and len(c.args) >= 2]
    if len(calls) != 1:
        raise AnalysisError(f"{f.qual}: expected one add_to_dict(template, dict, full_dict) call, found {len(calls)}")
    d = normalise(ctx, f, calls[0].args[1])
    if not isinstance(d, ast.Dict) or any(k is None for k in d.keys):
        raise AnalysisError(f"{f.qual}: the dictionary handed to add_to_dict is not a dict literal: {ast.unparse(d)[:80]}")
    anchor = stmt_of(ctx.cfg(f), calls[0])
    if isinstance(calls[0].args[1], ast.Name):
        for st in walk_shallow(f.node):
            if isinstance(st, ast.Assign) and isinstance(st.value, ast.Dict) and any(isinstance(t, ast.Name) and t.id == calls[0].args[1].id for t in st.targets):
                anchor = st
    return anchor, [k.value for k in d.keys if isinstance(k, ast.Constant)]


def _loaded_dict_name(loader) -> str:
    """Name of the local that receives dict_from_yaml(path) in from_yaml."""
    for st in walk_shallow(loader.node):
        if isinstance(st, ast.Assign) and len(st.targets) == 1 and isinstance(st.targets[0], ast.Name) and isinstance(st.value, ast.Call):
            v = st.value
            while call_name(v) in ("deepcopy", "dict", "copy") and len(v.args) == 1 and isinstance(v.args[0], ast.Call):
                v = v.args[0]          # a (deep) copy of the loaded dictionary is the loaded dictionary
            if call_name(v) == "dict_from_yaml":
                return st.targets[0].id
    raise AnalysisError("from_yaml no longer loads the template dictionary with dict_from_yaml")


def r2_dumper_vs_constructor(ctx, rid):
    pairs = [("from_circuit", FC, "CircuitTemplate"), ("from_node", FG, "OperatorGraphTemplate"), ("from_operator", FO, "OperatorTemplate")]
    for fn, rel, cls in pairs:
        f = ctx.repo.get_func(FD, fn)
        st, keys = _dump_keys(ctx, f)
        c, init, content = _ctor_params(ctx, rel, cls)
        all_params = set(init.params)
        extra = [k for k in keys if k != "base" and k not in all_params]
        if extra:
            ctx.violation(rid, f, st, f"{fn} writes key(s) {extra} that {cls}.__init__ does not accept: loading the dumped file fails or drops them",
                          {"keys": keys, "params": sorted(all_params)}, label=f"{fn}: keys ⊆ parameters")
        else:
            ctx.ok(rid, f, st, f"every key written by {fn} is a parameter of {cls}.__init__", {"keys": keys}, label=f"{fn}: keys ⊆ parameters")
        for p in content:
            if p in keys:
                ctx.ok(rid, f, st, f"content parameter `{p}` of {cls} is written by {fn}", label=f"{fn}: writes `{p}`", nontrivial=False)
            else:
                ctx.violation(rid, f, st, f"{cls} has the content field `{p}` but {fn} does not write it: a dumped template loses it on the "
                                          f"round trip", {"keys": keys}, label=f"{fn}: writes `{p}`")
    # the loader instantiates with exactly the loaded dictionary, name = template key
    loader = ctx.repo.get_func(FT, "from_yaml")
    loaded = _loaded_dict_name(loader)
    def _class_from_registry(c):
        v = single_def_value(ctx, loader, c.func) if isinstance(c.func, ast.Name) else c.func
        return isinstance(v, ast.Subscript) and "known_template_classes" in ast.unparse(v.value)
    inst = [c for c in walk_shallow(loader.node) if isinstance(c, ast.Call) and _class_from_registry(c)]
    if len(inst) == 1 and not inst[0].args and len(inst[0].keywords) == 1 and inst[0].keywords[0].arg is None and ast.unparse(inst[0].keywords[0].value) == loaded:
        ctx.ok(rid, loader, inst[0], "known template classes are instantiated with exactly the loaded dictionary", nontrivial=False)
    else:
        raise AnalysisError(f"{rid}: from_yaml no longer instantiates with cls(**template_dict)")


def r3_derived_inherits_everything(ctx, rid):
    """Decided on update_template with its private helpers spliced in; "derives from" follows every reaching definition of every
    local transitively (engine.util.value_sources)."""
    from engine.inline import inlined
    from engine.util import value_sources
    for rel, cls in ((FC, "CircuitTemplate"), (FG, "OperatorGraphTemplate"), (FO, "OperatorTemplate")):
        c, init, content = _ctor_params(ctx, rel, cls)
        upd0 = c.methods.get("update_template")
        if upd0 is None:
            raise AnalysisError(f"anchor vanished: {cls}.update_template")
        upd = inlined(ctx, upd0)
        selfn = upd0.self_name

        def _is_self_ctor(x):
            fn = x.func
            if isinstance(fn, ast.Attribute) and fn.attr == "__class__" and isinstance(fn.value, ast.Name) and fn.value.id == selfn:
                return True
            if isinstance(fn, ast.Call) and isinstance(fn.func, ast.Name) and fn.func.id == "type" and len(fn.args) == 1 \
                    and isinstance(fn.args[0], ast.Name) and fn.args[0].id == selfn:
                return True
            return isinstance(fn, ast.Name) and fn.id == cls
        calls = [x for x in walk_shallow(upd.node) if isinstance(x, ast.Call) and _is_self_ctor(x)]
        if len(calls) != 1:
            raise AnalysisError(f"{rid}: {cls}.update_template: expected one constructor call of its own class, found {len(calls)}")
        call = calls[0]
        if any(isinstance(a, ast.Starred) for a in call.args) or any(k.arg is None for k in call.keywords):
            raise AnalysisError(f"{rid}: {cls}.update_template forwards through */** (unrecognised form)")
        # positional arguments are matched to the constructor's parameter order
        ctor_pos = [p_ for p_ in init.params if p_ != init.self_name]
        kws = {ctor_pos[i]: a for i, a in enumerate(call.args) if i < len(ctor_pos)}
        kws.update({k.arg: k.value for k in call.keywords})
        src = {}
        for p in content + ["name", "path", "description"]:
            if p not in init.params:
                continue
            if p not in kws:
                ctx.violation(rid, upd0, call, f"{cls}.update_template does not forward `{p}` to the derived instance: a template derived via "
                                               f"`base:` / update_template silently loses its {p}", label=f"{cls}: forwards `{p}`")
                continue
            v = kws[p]
            # the forwarded value derives from the update parameter of the same name or from the base's own attribute
            params_, attrs_, _ = value_sources(ctx, upd, v)
            src[p] = (params_, attrs_)
            own = {f"{selfn}.{p}"} | ({f"{selfn}.__doc__"} if p == "description" else set())
            okv = p in params_ or bool(own & attrs_)
            if okv:
                ctx.ok(rid, upd0, call, f"`{p}` is forwarded (update value or the base's own)", label=f"{cls}: forwards `{p}`")
            else:
                ctx.violation(rid, upd0, call, f"{cls}.update_template forwards `{ast.unparse(v)}` as `{p}`, which derives neither from the "
                                               f"update argument `{p}` nor from self.{p}", label=f"{cls}: forwards `{p}`")
        # a parameter that update_template accepts falls back to the base's value when not given
        for p in [x for x in upd0.params if x in content]:
            if p not in src:
                continue
            fallback = f"{selfn}.{p}" in src[p][1]
            # ... the WHOLE value: `list(self.p)` / `set(..)` / `tuple(..)` / `sorted(..)` / `self.p.keys()` of a field that the constructor
            # keeps as a mapping hands on the keys only - what the keys map to (per-operator variations, per-node overrides) is dropped
            keys_only = None
            for n_ in walk_shallow(upd.node):
                is_conv = isinstance(n_, ast.Call) and isinstance(n_.func, ast.Name) and n_.func.id in ("list", "set", "tuple", "sorted", "frozenset") \
                    and len(n_.args) == 1 and isinstance(n_.args[0], ast.Attribute) and n_.args[0].attr == p \
                    and isinstance(n_.args[0].value, ast.Name) and n_.args[0].value.id == selfn
                is_keys = isinstance(n_, ast.Call) and isinstance(n_.func, ast.Attribute) and n_.func.attr == "keys" \
                    and isinstance(n_.func.value, ast.Attribute) and n_.func.value.attr == p and isinstance(n_.func.value.value, ast.Name) \
                    and n_.func.value.value.id == selfn
                if (is_conv or is_keys) and _field_is_mapping(ctx, init, p):
                    st_ = n_
                    from engine.srcmodel import parent as _par
                    while _par(st_) is not None and not isinstance(st_, ast.stmt):
                        st_ = _par(st_)
                    if isinstance(st_, ast.Assign) and any(isinstance(t_, ast.Name) and t_.id == p for t_ in st_.targets):
                        keys_only = n_
            if keys_only is not None:
                ctx.violation(rid, upd0, keys_only, f"when `{p}` is not given, update_template falls back to `{ast.unparse(keys_only)}`: `{p}` is a mapping, so "
                                                    f"this keeps its keys and drops what they map to - the derived template loses the base's per-entry "
                                                    f"values", label=f"{cls}: `{p}` inherits from base")
                continue
            if fallback:
                ctx.ok(rid, upd0, upd0.node, f"`{p}` falls back to / is merged with the base's own {p}", label=f"{cls}: `{p}` inherits from base")
            else:
                ctx.violation(rid, upd0, upd0.node, f"the `{p}` handed to the derived instance never derives from self.{p}: an update that omits "
                                                    f"`{p}` loses the base's {p}", label=f"{cls}: `{p}` inherits from base")


def r4_edits_use_boundary_aware_helper(ctx, rid):
    f = ctx.repo.get_func(FO, "_update_equation")
    m = f.module
    helper = None
    for local, (src, sym) in m.imports.items():
        if src == "pyrates.backend.parser" and sym == "replace":
            helper = local
    if helper is None:
        raise AnalysisError(f"{rid}: operator.py no longer imports parser.replace")
    eqn = f.params[0]
    good_calls = [c for c in walk_shallow(f.node) if isinstance(c, ast.Call) and isinstance(c.func, ast.Name) and c.func.id == helper]
    bad_calls = [c for c in walk_shallow(f.node) if isinstance(c, ast.Call) and isinstance(c.func, ast.Attribute)
                 and c.func.attr in ("replace", "translate") or (isinstance(c, ast.Call) and dotted(c.func) in ("re.sub", "_re.sub"))]
    for c in bad_calls:
        ctx.violation(rid, f, c, "an equation edit uses plain string replacement: every occurrence is replaced, also inside longer identifiers")
    for c in good_calls:
        first = c.args[0] if c.args else None
        if isinstance(first, ast.Name) and first.id == eqn:
            ctx.ok(rid, f, c, "edit applied with the boundary-aware helper parser.replace", nontrivial=False)
        else:
            ctx.violation(rid, f, c, "the boundary-aware helper is not applied to the equation being edited")

    # every form of the `replace` and `remove` edits applies the helper and stores the result back into the equation
    def applies(st) -> bool:
        if isinstance(st, (ast.Assign, ast.AugAssign)):
            tg = st.targets if isinstance(st, ast.Assign) else [st.target]
            return any(isinstance(t, ast.Name) and t.id == eqn for t in tg) and any(c in good_calls for c in ast.walk(st.value))
        if isinstance(st, (ast.For, ast.While)):
            return covers(st.body)
        if isinstance(st, ast.If):
            return bool(st.orelse) and covers(st.body) and covers(st.orelse)
        if isinstance(st, (ast.With, ast.Try)):
            return covers(st.body)
        return False

    def covers(stmts) -> bool:
        return any(applies(x) for x in stmts)
    for key in ("replace", "remove"):
        blocks = [st for st in walk_shallow(f.node) if isinstance(st, ast.If) and isinstance(st.test, ast.Name) and st.test.id == key]
        if key not in f.params or not blocks:
            continue            # reported below as "edit key not handled"
        if all(covers(b.body) for b in blocks):
            ctx.ok(rid, f, blocks[0], f"every form of the `{key}` edit is applied with the boundary-aware helper", label=f"`{key}` uses the helper")
        else:
            ctx.violation(rid, f, blocks[0], f"a form of the `{key}` edit does not apply parser.replace to the equation (the edit is dropped or done "
                                             f"without token boundaries)", label=f"`{key}` uses the helper")
    # order of the edits: `replace` / `remove` act on the base equation; text given through `append` / `prepend` is added afterwards and
    # must not be rewritten by them (a YAML edit {replace: {x: y}, append: "- k*x"} means "- k*x", not "- k*y")
    cfg = ctx.cfg(f)
    adders = [st for st in cfg.stmts() if isinstance(st, (ast.Assign, ast.AugAssign))
              and any(isinstance(t, ast.Name) and t.id == eqn for t in (st.targets if isinstance(st, ast.Assign) else [st.target]))
              and any(isinstance(n, ast.Name) and n.id in ("append", "prepend") and isinstance(n.ctx, ast.Load) for n in ast.walk(st.value))]
    rewriters = [st for st in cfg.stmts() if isinstance(st, (ast.Assign, ast.AugAssign)) and any(c in good_calls or c in bad_calls for c in ast.walk(st))]
    if adders and rewriters:
        late = [(a, r) for a in adders for r in rewriters if cfg.reachable_after(a, r)]
        if late:
            a, r = late[0]
            ctx.violation(rid, f, r, f"`{norm(r)[:60]}` can run after `{norm(a)[:50]}`: the appended / prepended text is itself rewritten by the "
                                     f"replace / remove edits of the same update", label="replace/remove precede append/prepend")
        else:
            ctx.ok(rid, f, adders[0], "append / prepend are applied after every replace / remove", label="replace/remove precede append/prepend")
    # every documented edit key is handled
    params = set(f.params)
    for key in ("replace", "remove", "append", "prepend"):
        if key in params and any(isinstance(st, ast.If) and isinstance(st.test, ast.Name) and st.test.id == key for st in walk_shallow(f.node)):
            ctx.ok(rid, f, f.node, f"edit key `{key}` is handled", label=f"edit key {key}", nontrivial=False)
        else:
            ctx.violation(rid, f, f.node, f"edit key `{key}` is not handled by _update_equation (the edit would be silently ignored or rejected)",
                          label=f"edit key {key}")
    # `add` is popped before the per-equation rules are applied and its equations are appended
    from engine.inline import inlined
    upd = inlined(ctx, ctx.repo.get_func(FO, "OperatorTemplate.update_template"))
    pops = [c for c in walk_shallow(upd.node) if isinstance(c, ast.Call) and call_name(c) == "pop" and c.args
            and isinstance(c.args[0], ast.Constant) and c.args[0].value == "add"]
    if len(pops) == 1:
        ctx.ok(rid, upd, pops[0], "`add` is separated from the per-equation edit rules", nontrivial=False, label="`add` popped first")
    else:
        raise AnalysisError(f"{rid}: handling of the `add` edit key not recognised")


def r5_dump_key_is_free(ctx, rid):
    """add_to_dict(template, template_dict, full_dict): the key the definition is stored under must be unused or hold an EQUAL
    definition.  The loop test is read as a propositional formula over A = (key in full_dict), E = (full_dict[key] == template_dict),
    I = (identity instead of equality); on loop exit (test false) A -> E must follow."""
    from sympy import Symbol, And, Or, Not
    from sympy.logic.inference import satisfiable
    f = ctx.repo.get_func(FD, "add_to_dict")
    ctx.require(len(f.params) >= 3, f"{rid}: add_to_dict signature changed")
    tdict, full = f.params[1], f.params[2]
    cfg = ctx.cfg(f)
    stores = [st for st in cfg.stmts() if isinstance(st, ast.Assign) and len(st.targets) == 1 and isinstance(st.targets[0], ast.Subscript)
              and isinstance(st.targets[0].value, ast.Name) and st.targets[0].value.id == full]
    if len(stores) != 1 or not isinstance(stores[0].targets[0].slice, ast.Name):
        raise AnalysisError(f"{rid}: store into {full} not recognised")
    store = stores[0]
    key = store.targets[0].slice.id
    A, E, I = Symbol("key_in_dict"), Symbol("equal_definition"), Symbol("same_object")

    def formula(t):
        if isinstance(t, ast.UnaryOp) and isinstance(t.op, ast.Not):
            x = formula(t.operand)
            return None if x is None else Not(x)
        if isinstance(t, ast.BoolOp):
            xs = [formula(v) for v in t.values]
            if any(x is None for x in xs):
                return None
            return And(*xs) if isinstance(t.op, ast.And) else Or(*xs)
        if isinstance(t, ast.Compare) and len(t.ops) == 1:
            l, op, r = t.left, t.ops[0], t.comparators[0]
            is_key = lambda e: isinstance(e, ast.Name) and e.id == key
            is_full = lambda e: (isinstance(e, ast.Name) and e.id == full) or (isinstance(e, ast.Call) and call_name(e) == "keys" and isinstance(e.func, ast.Attribute)
                                                                                 and isinstance(e.func.value, ast.Name) and e.func.value.id == full)
            if is_key(l) and is_full(r) and isinstance(op, (ast.In, ast.NotIn)):
                return A if isinstance(op, ast.In) else Not(A)
            def is_entry(e):
                return (isinstance(e, ast.Subscript) and isinstance(e.value, ast.Name) and e.value.id == full and is_key(e.slice)) or \
                       (isinstance(e, ast.Call) and call_name(e) == "get" and isinstance(e.func, ast.Attribute) and isinstance(e.func.value, ast.Name)
                        and e.func.value.id == full and e.args and is_key(e.args[0]))
            is_td = lambda e: isinstance(e, ast.Name) and e.id == tdict
            if (is_entry(l) and is_td(r)) or (is_td(l) and is_entry(r)):
                if isinstance(op, (ast.Eq, ast.NotEq)):
                    return E if isinstance(op, ast.Eq) else Not(E)
                if isinstance(op, (ast.Is, ast.IsNot)):
                    return I if isinstance(op, ast.Is) else Not(I)
        return None
    tests = [d for d in cfg.stmts() if isinstance(d, (ast.If, ast.While)) and any(isinstance(n, ast.Name) and n.id == key for n in ast.walk(d.test))
             and any(isinstance(n, ast.Name) and n.id == full for n in ast.walk(d.test))]
    if not tests:
        ctx.violation(rid, f, store, "the dump key is never tested against the keys already used: a second, different definition of the same name overwrites the first",
                      label="dump key is free")
        return
    t = sorted(tests, key=lambda s: s.lineno)[-1]
    rebinding = [st for st in ast.walk(t) if isinstance(st, ast.Assign) and any(key in [x.id for x in ast.walk(tg) if isinstance(x, ast.Name)] for tg in st.targets)]
    facts = {"test": norm(t), "rebinding": [norm(r) for r in rebinding]}
    fm = formula(t.test)
    if fm is None:
        raise AnalysisError(f"{rid}: unrecognised collision test `{ast.unparse(t.test)}` in add_to_dict")
    if not rebinding:
        ctx.violation(rid, f, store, "a colliding dump key is detected but not replaced", facts, label="dump key is free")
    elif not isinstance(t, ast.While):
        ctx.violation(rid, f, store, "the replacement key derived after a collision is not itself tested against the dump dictionary "
                                     "(single `if`): a third variant of the same template overwrites the second", facts, label="dump key is free")
    else:
        # on exit the test is false: key taken by a different definition must be impossible
        if satisfiable(And(Not(fm), A, Not(E), Not(I))):
            ctx.violation(rid, f, store, "the loop that re-derives the dump key can exit while the key is taken by a different definition "
                                         "(that definition is overwritten)", facts, label="dump key is free")
        elif I in fm.free_symbols and satisfiable(And(Not(fm), A, E, Not(I))) is False:
            ctx.violation(rid, f, t, "definitions are compared by identity: equal variants are never shared and every dump of the same "
                                     "definition gets a new key", facts, label="dump key is free")
        else:
            ctx.ok(rid, f, store, "the key is re-derived in a loop until it is unused or holds an equal definition", facts, label="dump key is free")


def r6_loader_derivation(ctx, rid):
    from engine.inline import inlined
    f = inlined(ctx, ctx.repo.get_func(FT, "from_yaml"), keep=("_complete_template_path",))       # the derivation may live in a private helper
    calls = [c for c in walk_shallow(f.node) if isinstance(c, ast.Call) and call_name(c) == "update_template"]
    if len(calls) != 1:
        raise AnalysisError(f"{rid}: from_yaml: expected one update_template call")
    c = calls[0]
    recv = c.func.value
    v = single_def_value(ctx, f, recv) if isinstance(recv, ast.Name) else recv
    ok_recv = isinstance(v, ast.Call) and call_name(v) == "from_yaml"
    loaded = _loaded_dict_name(f)
    ok_args = len(c.keywords) == 1 and c.keywords[0].arg is None and ast.unparse(c.keywords[0].value) == loaded and not c.args
    if ok_recv and ok_args:
        ctx.ok(rid, f, c, "a template with a non-class base is derived from the (recursively loaded) base with all its own entries")
    else:
        ctx.violation(rid, f, c, "a derived template is not built as from_yaml(base).update_template(**template_dict)")
    # base key removed before the dict is used as constructor arguments
    pops = [x for x in walk_shallow(f.node) if isinstance(x, ast.Call) and call_name(x) == "pop" and x.args and isinstance(x.args[0], ast.Constant)
            and x.args[0].value == "base" and isinstance(x.func, ast.Attribute) and ast.unparse(x.func.value) == loaded]
    if pops:
        ctx.ok(rid, f, pops[0], "`base` is removed from the loaded dictionary before it is forwarded", nontrivial=False)
    else:
        ctx.violation(rid, f, f.node, "`base` is not removed from the loaded dictionary", label="base popped")
    # the relative base path is completed against the path of the template that names it
    comp = [x for x in walk_shallow(f.node) if isinstance(x, ast.Call) and call_name(x) == "_complete_template_path"]
    base_name = None
    for st in walk_shallow(f.node):
        if isinstance(st, ast.Assign) and len(st.targets) == 1 and isinstance(st.targets[0], ast.Name) and pops and st.value is pops[0]:
            base_name = st.targets[0].id
    if comp and [ast.unparse(a) for a in comp[0].args] == [base_name, f.params[0]]:
        ctx.ok(rid, f, comp[0], "a relative base reference is completed against the referring template's path", nontrivial=False)
    else:
        ctx.violation(rid, f, f.node, "relative base reference is not completed against the referring template's path", label="base path completion")


def r7_dumper_is_read_only(ctx, rid):
    """The dumper must not write into the templates it serialises (shared operator defaults would receive one node's
    overrides and every other node would be dumped with them).  Same effect analysis as C14-R1, restricted to the dump path."""
    from .c14 import check_entry
    for rel, q in ((FD, "from_circuit"), (FD, "from_node"), (FD, "from_operator"), (FD, "from_edge"), (FD, "add_to_dict"),
                   ("pyrates/frontend/fileio/yaml.py", "dump_to_yaml"), (FT, "to_yaml"), (FC, "CircuitTemplate.to_yaml")):
        check_entry(ctx, rid, ctx.repo.get_func(rel, q), None)


def r9_cached_defaults(ctx, rid):
    """A model and its to_yaml round trip use different operator cache keys (dumped variants are renamed), so they agree only if
    the cached operator defaults are the template's own values (same rule as C07-R5)."""
    from .c07 import r5_cached_defaults_come_from_the_template
    r5_cached_defaults_come_from_the_template(ctx, rid)


def r8_boundary_vocabulary(ctx, rid):
    """Equation edits (replace/remove) act on whole identifiers only if parser.replace recognises every operator character of
    the grammar as a token boundary (same rule as C05-R4)."""
    from .c05 import r4_boundary_vocabulary
    r4_boundary_vocabulary(ctx, rid)


def r10_added_equations_verbatim(ctx, rid):
    """Equations listed under `add` of an edit dictionary are new text: they are taken over verbatim and the other edits (replace,
    remove, append, prepend) act on the INHERITED equations only.  In update_template the value read under the key 'add' must reach
    the equations handed to the constructor, and must not be part of what is iterated into the edit helper `_update_equation`."""
    from engine.inline import inlined
    from engine.util import value_sources
    f0 = ctx.repo.get_func(FO, "OperatorTemplate.update_template")
    f = inlined(ctx, f0, keep=("_update_equation",))

    def is_add(e):
        return isinstance(e, ast.Constant) and e.value == "add"
    adds = [n for n in walk_shallow(f.node)
            if (isinstance(n, ast.Call) and isinstance(n.func, ast.Attribute) and n.func.attr in ("pop", "get") and n.args and is_add(n.args[0]))
            or (isinstance(n, ast.Subscript) and is_add(n.slice) and isinstance(n.ctx, ast.Load))]
    if not adds:
        raise AnalysisError(f"{rid}: update_template no longer reads the `add` entry of an edit dictionary (unrecognised form)")
    edits = [c for c in walk_shallow(f.node) if isinstance(c, ast.Call) and call_name(c) == "_update_equation"]
    if not edits:
        raise AnalysisError(f"{rid}: update_template no longer applies _update_equation")

    def derives_from_add(expr) -> bool:
        seen = []
        value_sources(ctx, f, expr, visited=seen)
        return any(a is x for e in seen for x in ast.walk(e) for a in adds)
    for c in edits:
        eq = c.args[0] if c.args else None
        it = None
        if isinstance(eq, ast.Name):
            for a in _anc15(c):
                if isinstance(a, (ast.ListComp, ast.GeneratorExp, ast.SetComp)):
                    for g in a.generators:
                        if any(isinstance(x, ast.Name) and x.id == eq.id for x in ast.walk(g.target)):
                            it = g.iter
                elif isinstance(a, ast.For) and any(isinstance(x, ast.Name) and x.id == eq.id for x in ast.walk(a.target)):
                    it = a.iter
                if it is not None:
                    break
        if it is None:
            raise AnalysisError(f"{rid}: cannot find what `{norm(c)[:60]}` iterates over (unrecognised form)")
        if derives_from_add(it):
            ctx.violation(rid, f0, c, f"the equations given under `add` are part of `{norm(it)[:60]}`, which is run through the edit helper: a "
                                      f"replace/remove/append/prepend of the same edit dictionary rewrites the newly added text as well",
                          label="added equations are not edited")
        else:
            ctx.ok(rid, f0, c, "the edit helper runs over the inherited equations only", {"iterates": norm(it)}, label="added equations are not edited")
    ctor = [c for c in walk_shallow(f.node) if isinstance(c, ast.Call) and any(k.arg == "equations" for k in c.keywords)
            and not call_name(c) == "_update_equation"]
    if not ctor:
        raise AnalysisError(f"{rid}: cannot find the constructor call of update_template that receives equations=")
    e = next(k.value for k in ctor[-1].keywords if k.arg == "equations")
    if derives_from_add(e):
        ctx.ok(rid, f0, ctor[-1], "the added equations reach the derived template", label="added equations are kept")
    else:
        ctx.violation(rid, f0, ctor[-1], "the equations given under `add` never reach the equations of the derived template", label="added equations are kept")


def r11_loaded_definition_is_private(ctx, rid):
    """The dictionary dict_from_yaml returns is consumed destructively downstream (from_yaml pops `base`, update_template pops `add`
    from the equation edits, node overrides are written into variation dicts).  If the parsed file content is RETAINED anywhere that
    outlives the call (a module-level / class-level cache), what is handed out must share no container with it: a deep copy, not the
    cached object and not a shallow copy of it."""
    from engine.inline import inlined
    from engine.effects import analyse, fmt_origin
    f0 = ctx.repo.get_func("pyrates/frontend/fileio/yaml.py", "dict_from_yaml")
    f = inlined(ctx, f0)
    an = analyse(ctx.effects, f, None)
    rets = [r for r in walk_shallow(f.node) if isinstance(r, ast.Return) and r.value is not None]
    if not rets:
        raise AnalysisError(f"{rid}: dict_from_yaml has no return value")
    # a cache handed in by the caller (`file_cache=` parameter) is retained by that caller: then the obligation moves to the place
    # where the caller binds the result (from_yaml): it must be a deep copy
    cache_params = [p for p in f0.params if "cache" in p.lower()]
    if cache_params:
        loader = ctx.repo.get_func(FT, "from_yaml")
        name = _loaded_dict_name(loader)
        for st in walk_shallow(loader.node):
            if isinstance(st, ast.Assign) and len(st.targets) == 1 and isinstance(st.targets[0], ast.Name) and st.targets[0].id == name \
                    and any(isinstance(c, ast.Call) and call_name(c) == "dict_from_yaml" for c in ast.walk(st.value)):
                passes_cache = any(isinstance(c, ast.Call) and call_name(c) == "dict_from_yaml" and
                                   (any(k.arg in cache_params for k in c.keywords) or len(c.args) > 1) for c in ast.walk(st.value))
                deep = isinstance(st.value, ast.Call) and call_name(st.value) == "deepcopy"
                if passes_cache and not deep:
                    ctx.violation(rid, loader, st, f"from_yaml keeps the parsed file content in a cache (`{cache_params[0]}`) and binds "
                                                   f"`{norm(st)[:70]}` without a deep copy: nested containers (equation edits, variables, per-node "
                                                   f"overrides) are shared with the cache, and the consumers pop from / write into them, so a "
                                                   f"second load of the same template sees an edited definition",
                                  label="loaded definition shares nothing with retained file content")
                    return
                ctx.ok(rid, loader, st, "the loaded definition is deep-copied out of the retained file content" if passes_cache
                       else "no file content is retained by the loader", label="loaded definition shares nothing with retained file content")
                return
        raise AnalysisError(f"{rid}: dict_from_yaml takes a cache parameter but from_yaml's use of it is not recognised")
    for r in rets:
        orig = an.origins(r.value)

        def retained(o):
            if o[0] == "G":
                return o
            if o[0] == "C":
                return retained(o[1])
            return None
        shared = [o for o in orig if retained(o) is not None]
        facts = {"origins": sorted(fmt_origin(o) for o in orig)}
        if shared:
            o = shared[0]
            kind = "a shallow copy of" if o[0] == "C" else "the very object kept in"
            ctx.violation(rid, f0, r, f"dict_from_yaml hands out {kind} `{fmt_origin(retained(o))}`, data that is retained beyond the call: nested "
                                      f"containers (equation edits, variables, per-node overrides) are shared with the cache, and the consumers "
                                      f"pop from / write into them, so a second load of the same template sees an edited definition",
                          facts, label="loaded definition shares nothing with retained file content")
        else:
            ctx.ok(rid, f0, r, "the returned definition shares nothing with data retained beyond the call", facts,
                   label="loaded definition shares nothing with retained file content")


def r12_dump_memo_identifies_the_object(ctx, rid):
    """The dumper (frontend/dict.py) may write a template once and let later occurrences refer to it only if "the same template"
    means the same OBJECT (or equal content): per-node overrides are made by deep-copying a node template, so several nodes hold
    templates with the same name and path but different values - a memo keyed by name/path/type writes the first and drops the rest."""
    from ._pitfall_lints import attribute_keyed_memo
    funcs = [f for f in ctx.repo.functions.values() if f.module.rel == FD]
    if len(funcs) < 4:
        raise AnalysisError(f"{rid}: only {len(funcs)} functions found in {FD}")
    hits = attribute_keyed_memo(ctx, funcs)
    for f, st, why in hits:
        ctx.violation(rid, f, st, why, label="dump memo identifies the object")
    if not hits:
        ctx.ok(rid, None, None, f"no memo of the dumper is keyed by attributes of the template it stands for ({len(funcs)} functions)",
               construct=f"{FD}::dump memo identifies the object", loc=f"{FD}:1", nontrivial=False)


def _anc15(n):
    from engine.srcmodel import parent
    p = parent(n)
    while p is not None:
        yield p
        p = parent(p)


RULES = [
    ("C15-R1", r1_left_context, 2),
    ("C15-R2", r2_dumper_vs_constructor, 8),
    ("C15-R3", r3_derived_inherits_everything, 12),
    ("C15-R4", r4_edits_use_boundary_aware_helper, 7),
    ("C15-R5", r5_dump_key_is_free, 1),
    ("C15-R6", r6_loader_derivation, 3),
    ("C15-R7", r7_dumper_is_read_only, 8),
    ("C15-R8", r8_boundary_vocabulary, 1),
    ("C15-R9", r9_cached_defaults, 2),
    ("C15-R10", r10_added_equations_verbatim, 2),
    ("C15-R11", r11_loaded_definition_is_private, 1),
    ("C15-R12", r12_dump_memo_identifies_the_object, 1),
]
