"""C01 — generated vector field equals the model the user wrote (DESIGN §4 C01)."""
from __future__ import annotations

import ast
import re
from typing import Dict, List, Optional, Set, Tuple

from engine import AnalysisError
from engine.cfg import CFG, stmt_of
from engine.dataflow import ReachingDefs, target_names, assigned_value
from engine.srcmodel import walk_shallow, norm, parent, set_parents
from engine.util import call_name, contains, get_method, in_body, fstring_template
from ._c01_util import (bound_by_inner_scope, loads, load_ids, strip_wrappers, bounded_paths, branch_outcome,
                        membership_facts, read_reserved, literal_pieces, alias_root, string_collection, module_constant, list_shapes, LVal, Scalar, Delegate)

PROPERTY = "C01"
IR = "pyrates/ir/circuit.py"
CG = "pyrates/backend/computegraph.py"

EXPLANATION = (
    "Numerical equality of the generated function with the model for all models and states is not decidable statically.  "
    "Decided (structural necessary conditions): "
    "R1 loop-variable discipline in every function of pyrates/** (the lowering pipeline pyrates/ir, pyrates/frontend/template, "
    "backend/parser.py, backend/computegraph.py and, as a superset, the backends): no loop body reads a name whose reaching "
    "definition is the target of an earlier, already finished `for` loop while its own loop binds a target it never reads "
    "(the signature of 'iterates over X but uses the previous loop's last element', D-1); a synthetic positive and negative "
    "control run on every check.  "
    "R2 every element store into a numpy.zeros array inside a loop over zip(index lists, weights) in pyrates/ir/circuit.py whose "
    "index derives from the zipped elements accumulates (`+=`) unless a dominating test raises on duplicate index tuples "
    "(parallel edges are legal input, D-2).  "
    "R3 the record-grouping in NetworkGraph._collect_from_edges (recognised by role: a dict keyed per record, groups created by "
    "`if k not in d: d[k] = {}` / setdefault / defaultdict, fields merged directly, through an alias of the group or by a "
    "private helper that receives the group): a field that the consumer _generate_edge_equation uses as one "
    "string (`group[field].split(...)`) must be determined by the grouping key, by a pre-grouping of the caller, or the merge must "
    "raise on a second distinct value (D-3, still present).  "
    "R4 ComputeGraph._generate_unique_label: on every path (loops unrolled) the returned name has been tested not to be in the name "
    "table after its last modification and is registered in that table; add_var/add_op key the graph node, the node object and "
    "their return value with the returned label; call sites that discard the returned label request a provably free name "
    "(the time singleton `t`, or a name containing a sub-string that check_vname reserves) (D-4).  "
    "R6 in to_func and get_jacobian_func the returned argument values and argument names are produced by one iteration over one "
    "list: one value per name, each value get_var(<that name>), skipped names are exactly the seeded leading entries t, state "
    "vector, hist, and every generate_func_head implementation returns that prefix in that order.  The value list is read as "
    "`seeds, then one pass over the name list` whatever its spelling (for loop, enumerate / index loop, comprehension handed to "
    "extend / += / the initial value, `continue`-style skips, == / != / in / not in tests, a private helper that builds the "
    "list); the head prefix is decided by abstract execution of every path of each implementation (known leading entries of the "
    "returned list vs. the truth value of add_hist_func; conditional expressions, early returns and private helpers included).  "
    "R7 every plain store into an existing operator's input table (`inputs = op['inputs']; inputs[var] = {'sources': …}`, also "
    "`inputs[var]['sources'] = …`) in pyrates/ir/circuit.py lies on the branch of a dominating membership test where the "
    "variable has no entry yet, so registering an edge operator or a delay buffer never drops the same-node sources that "
    "OperatorGraph already registered.  "
    "R9 ComputeGraph._sort_var_updates registers, for an lhs-indexing operation, the first argument of the indexing call as the "
    "variable it defines (never a fixed position of the name-ordered input list).  "
    "R10 wherever pyrates/ir/circuit.py emits an edge equation `index(u, IDX) = …` (an assignment through an index list, which "
    "keeps only the last contribution per repeated index) with a per-edge index list, that list is duplicate-free by "
    "construction (np.unique / set / range) or the equation is reachable only where a test len(unique(IDX)) vs len(IDX) of that "
    "very list holds — directly or through a flag that can have the required value only there (flags derived from flags, "
    "`or`-combined tests, guard in the caller of an extracted helper included).  "
    "R11 every `break` out of the pass loop of ComputeGraph._sort_var_updates (which leads to the fallback: remaining equations "
    "emitted in declaration order, their variables handed in as extra arguments) fires only after a pass that resolved "
    "nothing: the counters of the stuck test are executed symbolically for four passes as polynomials in the numbers r_j of "
    "equations resolved per pass, and the break condition of pass j must be unsatisfiable with r_1..r_j >= 1 (counter on the "
    "pending collection, on a result list, a per-pass difference or a progress flag).  "
    "R12 the local container that is filled inside the loop over the sources of one input variable (CircuitIR._collect_ops) is "
    "created or cleared on every path from the start of an iteration of the enclosing loop over the operator's input variables "
    "to that source loop (private helpers spliced in), so no input variable inherits the sources of an earlier one.  "
    "R13 every test against a declared absolute tolerance of the edge-equation generator (a parameter with a small float "
    "default, followed into the helpers it is handed to) — the tests that decide to leave a weight factor out of the emitted "
    "term — is an absolute comparison |x - c| < tol; np.allclose / np.isclose / math.isclose are accepted only with an "
    "explicit zero relative tolerance and the declared tolerance as absolute one.  "
    "R14 every test in pyrates/ir/circuit.py that is equivalent to X[-1] - X[0] == len(X) - 1 (an index list judged by its end "
    "points and length; matched symbolically, through int() wrappers and aliases) is combined with an element-wise test or "
    "applied only to lists that are sorted and duplicate-free by construction at every origin (np.unique / range, followed "
    "through parameters to the call sites); synthetic positive / negative controls run on every check.  "
    "R4, R7, R3 and R10 look at functions with their private helpers spliced in (engine.inline) whenever the construct and its "
    "guard may have been put into different functions; a construct is then judged at every call site.  "
    "R5 (state layout loops) is implemented as C12-R2 in rules/c12.py and registered here when that module provides it.  "
    "NOT decided: that the substituted input term is the right sum, the arithmetic of equations (C05), values of weights, "
    "index-role typing of weight matrices (C16), anything about run-time values."
)
RULE_TEXT = ("R1: all `for` loops of all functions (pairs finished-loop/later-loop examined through reaching definitions); "
             "R2: scatter stores found by provenance of the array (numpy.zeros) and of the index (zip element); "
             "R3: producer/consumer pairs resolved through the call graph; R4: exhaustive paths of the generator with every "
             "CFG node visited at most twice, plus def-use at callers; R6: def-use of the two returned tuples.  "
             "Non-trivial = needed reaching definitions, path enumeration, dominance or call-graph resolution.")
ASSUMPTIONS = [
    "networkx MultiDiGraph.add_node(label) silently replaces the attributes of an existing node of that name (library semantics).",
    "numpy `a[i, j] += w` with scalar i, j adds to one element (no fancy-index de-duplication is involved).",
    "The global time variable `t` is a deliberate singleton of the compute graph (all operators share one node `t`); "
    "frozen as the only label _generate_unique_label may return untested.",
    "History variables `<var>_hist<k>` are unique among themselves because <var> is a unique node label and k counts the "
    "delays registered for it.",
]

ZEROS = {"zeros", "zeros_like"}
STR_METHODS = {"split", "rsplit", "partition", "rpartition", "strip", "lstrip", "rstrip", "startswith", "endswith",
               "replace", "format", "join", "lower", "upper", "encode", "find", "removeprefix", "removesuffix"}
# labels the fresh-name generator may hand back untested (label -> reason)
SINGLETON_LABELS = {"t": "global time variable: one node shared by all operators by design"}


# ================================================================================================
# R1 loop-variable discipline
# ================================================================================================

_R1_CONTROL_BAD = '''
def control(ops, table):
    picked = {}
    for name, spec in ops.items():
        picked[name] = (spec, {})
    for key, (term, extra) in picked.items():
        if term:
            table[name] = [term for term in [term]]
        table.update(extra)
    return table
'''
_R1_CONTROL_GOOD = _R1_CONTROL_BAD.replace("table[name] =", "table[key] =")


def stale_target_reads(func_node: ast.AST, rd: ReachingDefs):
    """(n_loops, n_pairs, matches, stale_only).  A match is ([L1, ...], L2, stale_name, [read nodes], [unused fresh targets])."""
    loops = [n for n in walk_shallow(func_node) if isinstance(n, (ast.For, ast.AsyncFor))]
    loops.sort(key=lambda l: (l.lineno, l.col_offset))
    n_pairs = 0
    matches, stale_only = [], []
    for i, l1 in enumerate(loops):
        t1 = set(target_names(l1.target))
        for l2 in loops[i + 1:]:
            if contains(l1, l2) or contains(l2, l1):
                continue
            n_pairs += 1
            t2 = target_names(l2.target)
            body_reads: Set[str] = set()
            for b in l2.body:
                body_reads |= load_ids(b)
            unused = [t for t in t2 if t not in body_reads and t.strip("_")]
            stale: Dict[str, List[ast.Name]] = {}
            for b in l2.body:
                for n in [b] + list(walk_shallow(b)):
                    if isinstance(n, ast.Name) and isinstance(n.ctx, ast.Load) and n.id in t1 and n.id not in t2:
                        if bound_by_inner_scope(n, l2):
                            continue
                        if any(d is l1 for d in rd.defs_reaching(n)):
                            stale.setdefault(n.id, []).append(n)
            for name, reads in stale.items():
                bucket = matches if unused else stale_only
                prev = next((m for m in bucket if m[1] is l2 and m[2] == name), None)
                if prev is not None:
                    prev[0].append(l1)          # the same read is reached by several finished loops: one finding
                else:
                    bucket.append(([l1], l2, name, reads, unused))
    return len(loops), n_pairs, matches, stale_only


def _control(src: str):
    tree = ast.parse(src)
    set_parents(tree)
    fn = tree.body[0]
    return stale_target_reads(fn, ReachingDefs(CFG(fn)))


def r1_loop_variable_discipline(ctx, rid):
    # positive / negative control: the matcher must see the synthetic D-1 shape and must not see its repaired form
    _, _, hit, _ = _control(_R1_CONTROL_BAD)
    _, _, miss, other = _control(_R1_CONTROL_GOOD)
    if not (len(hit) == 1 and hit[0][2] == "name" and hit[0][4] == ["key"]) or miss or other:
        raise AnalysisError(f"{rid}: positive control failed — the stale-loop-target matcher no longer recognises the synthetic "
                            f"D-1 shape (hit={len(hit)}, repaired form hit={len(miss)})")
    m = ctx.repo.get_module(IR)
    ctx.ok(rid, None, None, "positive control: synthetic `for name, spec in ...` / `for key, (term, extra) in ...: table[name] = term` "
                            "is matched; its repaired form is not", construct="rules/c01.py::_R1_CONTROL", loc="rules/c01.py",
           nontrivial=False)
    n_loops = 0
    for f in ctx.repo.all_functions():
        if not any(isinstance(n, (ast.For, ast.AsyncFor)) for n in walk_shallow(f.node)):
            continue
        loops = [n for n in walk_shallow(f.node) if isinstance(n, (ast.For, ast.AsyncFor))]
        if len(loops) < 2:
            n_loops += len(loops)
            continue
        nl, n_pairs, matches, stale_only = stale_target_reads(f.node, ctx.rd(f))
        n_loops += nl
        if n_pairs == 0:
            continue
        for l1s, l2, name, reads, unused in matches:
            st = stmt_of(ctx.cfg(f), reads[0])
            l1 = l1s[0]
            ctx.violation(rid, f, st,
                          f"`{name}` is read inside `{norm(l2)}` but its live definition there is the target of the earlier, "
                          f"finished loop `{'` / `'.join(norm(x) for x in l1s)}` (it holds that loop's last element), while this loop's own target "
                          f"`{', '.join(unused)}` is never read in its body: the loop iterates over one collection but acts on the "
                          f"stale element of another — inputs are wired to the wrong variable",
                          {"stale_name": name, "finished_loops": [norm(x) for x in l1s], "later_loop": norm(l2), "unused_targets": unused,
                           "reads": [norm(stmt_of(ctx.cfg(f), r)) for r in reads]},
                          label=f"{norm(l2)} reads stale `{name}`")
        for l1s, l2, name, reads, unused in stale_only:
            l1 = l1s[0]
            ctx.info(rid, f, l2, f"`{name}` (target of finished loop `{norm(l1)}`) is read inside `{norm(l2)}`; all targets of the "
                                 f"later loop are used, so this is not the D-1 signature (listed, not armed)",
                     label=f"{norm(l2)} reads `{name}` of a finished loop")
        if not matches:
            ctx.ok(rid, f, f.node, f"{nl} loops, {n_pairs} finished-loop/later-loop pairs: no later loop reads a finished loop's "
                                   f"target while leaving its own target unread", {"loops": nl, "pairs": n_pairs},
                   label="loop-variable discipline")
    ctx.notes.append(f"{rid}: {n_loops} `for` loops scanned in {len(ctx.repo.by_rel)} modules")
    ctx.require(n_loops >= 250, f"{rid}: only {n_loops} `for` loops scanned, 291 were present on the pinned tree (floor 250)")


# ================================================================================================
# R2 accumulate-on-scatter
# ================================================================================================

def _zip_targets(loop: ast.For) -> Optional[Tuple[Dict[str, str], Set[str]]]:
    """For `for a, b in zip(A, B)` / `for i, (a, b) in enumerate(zip(A, B))`: ({a: 'A', b: 'B'}, {counter names})."""
    it, tgt = loop.iter, loop.target
    counters: Set[str] = set()
    if isinstance(it, ast.Call) and call_name(it) == "enumerate" and it.args and isinstance(tgt, (ast.Tuple, ast.List)) \
            and len(tgt.elts) == 2:
        counters = set(target_names(tgt.elts[0]))
        it, tgt = it.args[0], tgt.elts[1]
    if isinstance(it, ast.Call) and call_name(it) == "range" and len(it.args) == 1 and isinstance(tgt, ast.Name) and not counters \
            and isinstance(it.args[0], ast.Call) and call_name(it.args[0]) == "len":
        # index loop `for k in range(len(A)): a, b = A[k], B[k]`: the lists subscripted by the counter play the zipped lists' role
        k = tgt.id
        out = {}
        for n in [x for b in loop.body for x in ast.walk(b)]:
            if isinstance(n, ast.Subscript) and isinstance(n.value, ast.Name) and isinstance(n.slice, ast.Name) and n.slice.id == k:
                out[n.value.id] = n.value.id
        for st in [x for b in loop.body for x in [b] + list(walk_shallow(b))]:
            if isinstance(st, ast.Assign) and len(st.targets) == 1:
                te, ve = st.targets[0], st.value
                pairs = list(zip(te.elts, ve.elts)) if isinstance(te, (ast.Tuple, ast.List)) and isinstance(ve, (ast.Tuple, ast.List)) \
                    and len(te.elts) == len(ve.elts) else [(te, ve)]
                for a, b in pairs:
                    if isinstance(a, ast.Name) and isinstance(b, ast.Subscript) and isinstance(b.value, ast.Name) and isinstance(b.slice, ast.Name) \
                            and b.slice.id == k:
                        out[a.id] = b.value.id
        return (out, {k}) if len(out) >= 2 else None
    if not (isinstance(it, ast.Call) and isinstance(it.func, ast.Name) and it.func.id == "zip"):
        return None
    out: Dict[str, str] = {}
    if isinstance(tgt, (ast.Tuple, ast.List)) and len(tgt.elts) == len(it.args):
        for te, src in zip(tgt.elts, it.args):
            for nm in target_names(te):
                out[nm] = ast.unparse(src)
    else:
        for nm in target_names(tgt):
            out[nm] = ast.unparse(it)
    return out, counters


def _derives_from(ctx, f, name_node: ast.Name, loop: ast.For, sources: Dict[str, str], seen=None, depth=0) -> Set[str]:
    """Which zipped lists does the value of this Name load derive from (through assignments inside the loop body)?"""
    seen = seen if seen is not None else set()
    if name_node.id in sources:
        return {sources[name_node.id]}
    if depth > 6:
        return set()
    out: Set[str] = set()
    for d in ctx.rd(f).defs_reaching(name_node):
        if id(d) in seen or not isinstance(d, ast.stmt) or not in_body(loop, d):
            continue
        seen.add(id(d))
        v = assigned_value(d, name_node.id)
        if v is None and isinstance(d, ast.AugAssign):
            v = d.value
        if v is None:
            continue
        for n in loads(v):
            out |= _derives_from(ctx, f, n, loop, sources, seen, depth + 1)
    return out


def _distinctness_guard(ctx, f, loop, idx_lists: Set[str], rid):
    cfg = ctx.cfg(f)
    for d in cfg.dominators(loop):
        if not isinstance(d, ast.If) or d is loop:
            continue
        uniq = [c for c in ast.walk(d.test) if isinstance(c, ast.Call) and call_name(c) in ("set", "unique", "frozenset")
                and {ast.unparse(n) for n in loads(c)} & idx_lists]
        if not uniq:
            continue
        raises = bool(d.body) and isinstance(d.body[-1], ast.Raise) and not d.orelse \
            and not any(contains(b, loop) for b in d.body)
        if not raises:
            continue        # a branch on duplicates that goes on proves nothing
        t = d.test
        ok_form = isinstance(t, ast.Compare) and len(t.ops) == 1 and isinstance(t.ops[0], (ast.Lt, ast.NotEq, ast.Gt)) \
            and all(isinstance(x, ast.Call) and call_name(x) == "len" for x in (t.left, t.comparators[0]))
        if ok_form:
            l_is_uniq = any(contains(t.left, u) for u in uniq)
            op = t.ops[0]
            if isinstance(op, ast.NotEq) or (isinstance(op, ast.Lt) and l_is_uniq) or (isinstance(op, ast.Gt) and not l_is_uniq):
                return d
        raise AnalysisError(f"{rid}: {f.qual}: `{norm(d)}` looks like a duplicate-index test that raises but has an unrecognised form")
    return None



def _index_array_kind(ctx, f, e: ast.AST, depth: int = 0) -> Optional[str]:
    """Provenance of an index expression: 'unique' — an array whose entries are distinct by construction (the values returned
    by np.unique, arange / range), 'array' — some other index array (e.g. the inverse mapping of np.unique, np.where results),
    None — not known to be an array (a scalar, a loop variable).  Looks through tuple unpacking of np.unique(..., return_*=True),
    order-preserving wrappers (.ravel(), np.asarray, …), single aliases and — for a tuple returned by a private helper — the
    corresponding element of the helper's return."""
    if depth > 6 or e is None:
        return None
    if isinstance(e, ast.Tuple):
        kinds = [_index_array_kind(ctx, f, x, depth + 1) for x in e.elts]
        return "unique" if "unique" in kinds else ("array" if "array" in kinds else None)
    if isinstance(e, ast.Call):
        nm = call_name(e)
        if isinstance(e.func, ast.Attribute) and nm in ("ravel", "flatten", "astype", "squeeze", "reshape", "copy", "tolist") \
                and not isinstance(e.func.value, ast.Name) or (isinstance(e.func, ast.Attribute) and nm in ("ravel", "flatten", "astype", "squeeze", "reshape", "copy", "tolist")
                                                              and not (ctx.repo.external_name(f.module, e.func) or "").startswith("numpy")):
            return _index_array_kind(ctx, f, e.func.value, depth + 1)
        if nm in ("asarray", "array", "list", "tuple", "ravel", "squeeze", "atleast_1d") and e.args:
            return _index_array_kind(ctx, f, e.args[0], depth + 1) or ("array" if nm in ("asarray", "array") else None)
        if nm in ("unique",):
            return "unique" if not any(k.arg and k.arg.startswith("return_") for k in e.keywords) else None
        if nm in ("arange", "range"):
            return "unique"
        if nm in ("searchsorted", "digitize", "repeat", "tile"):
            return "array"          # (np.where / argwhere of a comparison with one element are per-edge scalars: not claimed)
        return None
    if isinstance(e, ast.Name) and isinstance(e.ctx, ast.Load):
        defs = ctx.rd(f).defs_reaching(e)
        kinds = []
        for d in defs:
            if isinstance(d, ast.arguments) or isinstance(d, (ast.For, ast.comprehension)):
                kinds.append(None)
                continue
            v = assigned_value(d, e.id)
            if v is not None:
                kinds.append(_index_array_kind(ctx, f, v, depth + 1))
                continue
            k = None
            if isinstance(d, ast.Assign) and len(d.targets) == 1 and isinstance(d.targets[0], (ast.Tuple, ast.List)) and isinstance(d.value, ast.Name):
                # unpacking of a tuple held in a local (e.g. the result variable of a spliced-in helper)
                pos = next((i for i, t in enumerate(d.targets[0].elts) if isinstance(t, ast.Name) and t.id == e.id), None)
                tdefs = ctx.rd(f).defs_reaching(d.value)
                tvals = [assigned_value(td, d.value.id) for td in tdefs]
                if pos is not None and tvals and all(isinstance(tv, ast.Tuple) and len(tv.elts) == len(d.targets[0].elts) for tv in tvals):
                    ks = [_index_array_kind(ctx, f, tv.elts[pos], depth + 1) for tv in tvals]
                    k = "unique" if all(x == "unique" for x in ks) else ("array" if all(x in ("unique", "array") for x in ks) else None)
            if isinstance(d, ast.Assign) and len(d.targets) == 1 and isinstance(d.targets[0], (ast.Tuple, ast.List)) and isinstance(d.value, ast.Call):
                pos = next((i for i, t in enumerate(d.targets[0].elts) if isinstance(t, ast.Name) and t.id == e.id), None)
                if pos is not None and call_name(d.value) == "unique" and any(k2.arg and k2.arg.startswith("return_") for k2 in d.value.keywords):
                    k = "unique" if pos == 0 else "array"
                elif pos is not None:
                    try:
                        targets, how = ctx.cg.resolve_call(f, d.value)
                    except Exception:
                        targets, how = [], ""
                    if len(targets) == 1 and how != "by-name":
                        g = targets[0]
                        rets = [r for r in walk_shallow(g.node) if isinstance(r, ast.Return) and isinstance(r.value, ast.Tuple)
                                and len(r.value.elts) == len(d.targets[0].elts)]
                        ks = [_index_array_kind(ctx, g, r.value.elts[pos], depth + 1) for r in rets]
                        k = ks[0] if ks and all(x == ks[0] for x in ks) else None
            kinds.append(k)
        if kinds and all(k == "unique" for k in kinds):
            return "unique"
        if kinds and all(k in ("unique", "array") for k in kinds):
            return "array"
        return None
    return None


def r2_accumulate_on_scatter(ctx, rid):
    n_zip_loops = 0
    for f in ctx.repo.all_functions([IR]):
        for loop in [n for n in walk_shallow(f.node) if isinstance(n, ast.For)]:
            zt = _zip_targets(loop)
            if zt is None:
                continue
            sources, counters = zt
            n_zip_loops += 1
            for st in [n for b in loop.body for n in [b] + list(walk_shallow(b))]:
                if isinstance(st, ast.Assign) and len(st.targets) == 1:
                    tgt, aug = st.targets[0], None
                elif isinstance(st, ast.AugAssign):
                    tgt, aug = st.target, st.op
                elif isinstance(st, ast.Expr) and isinstance(st.value, ast.Call) and len(st.value.args) == 3 \
                        and (ctx.repo.external_name(f.module, st.value.func) or "") == "numpy.add.at":
                    # np.add.at(a, idx, w): unbuffered in-place accumulation, same meaning as a[idx] += w per entry
                    tgt = ast.Subscript(value=st.value.args[0], slice=st.value.args[1], ctx=ast.Store())
                    aug = ast.Add()
                else:
                    continue
                # a transposed / reshaped view of the array (`a.T[j, i] += w`) stores into the same array
                if isinstance(tgt, ast.Subscript) and isinstance(tgt.value, ast.Attribute) and tgt.value.attr in ("T", "mT", "flat") \
                        and isinstance(tgt.value.value, ast.Name):
                    tgt = ast.Subscript(value=tgt.value.value, slice=tgt.slice, ctx=ast.Store())
                if not (isinstance(tgt, ast.Subscript) and isinstance(tgt.value, ast.Name)):
                    continue
                arr = tgt.value.id
                defs = ctx.rd(f).defs_reaching_at(stmt_of(ctx.cfg(f), st), arr)
                vals = [assigned_value(d, arr) for d in defs]
                is_zeros = bool(vals) and all(
                    isinstance(v, ast.Call) and call_name(v) in ZEROS
                    and (ctx.repo.external_name(f.module, v.func) or "").startswith("numpy.") for v in vals)
                if not is_zeros:
                    continue
                if any(in_body(loop, d) for d in defs):
                    continue        # allocated afresh in every iteration of this loop: iterations do not share the array
                derived: Set[str] = set()
                for n in loads(tgt.slice):
                    derived |= _derives_from(ctx, f, n, loop, sources)
                facts = {"array": arr, "allocated_by": [norm(d) for d in defs], "loop": norm(loop),
                         "index": ast.unparse(tgt.slice), "index_derives_from": sorted(derived)}
                if not derived:
                    ctx.info(rid, f, st, "store into a zeros array whose index does not derive from the zipped lists "
                                         "(counter / loop-invariant index): duplicates are impossible by construction", facts)
                    continue
                if aug is None and isinstance(st.value, ast.BinOp) and isinstance(st.value.op, ast.Add) \
                        and any(ast.dump(x) == ast.dump(tgt).replace("Store()", "Load()") for x in (st.value.left, st.value.right)):
                    aug = ast.Add()         # `a[i] = a[i] + w` is the same accumulation
                if aug is not None:
                    if isinstance(aug, ast.Add):
                        ctx.ok(rid, f, st, f"scatter into `{arr}` indexed through {sorted(derived)} accumulates: several entries "
                                           f"addressing one element add up", facts)
                    else:
                        raise AnalysisError(f"{rid}: {f.qual}: scatter `{norm(st)}` uses an augmented operator other than +=")
                    continue
                g = _distinctness_guard(ctx, f, loop, derived, rid)
                if g is not None:
                    facts["guard"] = norm(g)
                    ctx.ok(rid, f, st, "plain store, but a dominating test raises when the index lists contain duplicates", facts)
                else:
                    ctx.violation(rid, f, st,
                                  f"`{norm(st)}` overwrites: `{arr}` starts as zeros and is filled inside `{norm(loop)}` at an index "
                                  f"taken from {sorted(derived)}; nothing guarantees those index tuples are distinct (parallel edges "
                                  f"between the same pair of variables are legal), so of several connections only the last weight "
                                  f"survives instead of their sum", facts)
    # ---- vectorised scatter: a zeros array addressed through index ARRAYS in one statement (no per-edge loop)
    n_fancy = 0
    for f in ctx.repo.all_functions([IR]):
        for st in [n for n in walk_shallow(f.node) if isinstance(n, (ast.Assign, ast.AugAssign, ast.Expr))]:
            if isinstance(st, ast.Assign) and len(st.targets) == 1:
                tgt, mode = st.targets[0], "store"
            elif isinstance(st, ast.AugAssign):
                tgt, mode = st.target, "aug"
            elif isinstance(st, ast.Expr) and isinstance(st.value, ast.Call) and len(st.value.args) == 3 \
                    and (ctx.repo.external_name(f.module, st.value.func) or "") in ("numpy.add.at", "numpy.subtract.at"):
                tgt, mode = ast.Subscript(value=st.value.args[0], slice=st.value.args[1], ctx=ast.Store()), "at"
            else:
                continue
            if not (isinstance(tgt, ast.Subscript) and isinstance(tgt.value, ast.Name)):
                continue
            kind = _index_array_kind(ctx, f, tgt.slice)
            if kind is None:
                continue
            arr = tgt.value.id
            defs = ctx.rd(f).defs_reaching_at(stmt_of(ctx.cfg(f), st), arr)
            vals = [assigned_value(d, arr) for d in defs]
            if not (vals and all(isinstance(v, ast.Call) and call_name(v) in ZEROS
                                 and (ctx.repo.external_name(f.module, v.func) or "").startswith("numpy.") for v in vals)):
                continue
            n_fancy += 1
            facts = {"array": arr, "index": ast.unparse(tgt.slice), "index_provenance": kind}
            if mode == "at":
                ctx.ok(rid, f, st, f"`{norm(st)}` is an unbuffered scatter: entries addressed by several edges add up", facts)
            elif kind == "unique":
                ctx.ok(rid, f, st, f"the index arrays of `{norm(st)}` are distinct by construction (np.unique values / arange)", facts)
            elif mode == "aug" and isinstance(st.op, (ast.Add, ast.Sub)):
                ctx.violation(rid, f, st,
                              f"`{norm(st)}` accumulates through index arrays: numpy evaluates a fancy-indexed augmented assignment as "
                              f"`tmp = a[idx] {'+' if isinstance(st.op, ast.Add) else '-'} v; a[idx] = tmp`, so an (row, column) pair that occurs for several edges (parallel "
                              f"edges are legal) receives only the last weight instead of the sum; np.add.at / a loop accumulate", facts)
            elif mode == "store":
                ctx.violation(rid, f, st,
                              f"`{norm(st)}` overwrites `{arr}` (zeros) through index arrays that can address one element for several "
                              f"edges: only the last weight survives instead of the sum", facts)
            else:
                raise AnalysisError(f"{rid}: {f.qual}: scatter `{norm(st)}` uses an augmented operator other than += / -=")
    ctx.notes.append(f"{rid}: {n_zip_loops} zip loops examined in {IR}, {n_fancy} vectorised scatters")
    ctx.require(n_zip_loops >= 5, f"{rid}: only {n_zip_loops} loops over zip(...) found in {IR} (7 on the pinned tree)")


# ================================================================================================
# R3 grouping key determines scalar-consumed fields
# ================================================================================================

DICT_CTORS = ("dict", "defaultdict", "OrderedDict")


def _is_dict_ctor(e: ast.AST) -> bool:
    return isinstance(e, ast.Dict) or (isinstance(e, ast.Call) and call_name(e) in DICT_CTORS)


def _producer_model(ctx, f, rid):
    """Recognise the record-grouping of _collect_from_edges by role: a dict D is returned; inside a loop over the records a
    group D[K] is created when absent (`if K not in D: D[K] = {}`, `D.setdefault(K, {})`, `D = defaultdict(dict)`); the fields
    F of a loop over a field-name parameter are merged into the group (`D[K][F]`, or through a single-definition alias
    `G = D[K]` / `G = D.setdefault(K, {})`, or by handing group and field name to a private helper).
    Returns dict(D, key, loop, field_loop, fields_param, create, tries, regions)."""
    rets = [n for n in walk_shallow(f.node) if isinstance(n, ast.Return) and n.value is not None]
    if len(rets) != 1:
        raise AnalysisError(f"{rid}: {f.qual}: expected a single `return <dict>`")
    root = alias_root(ctx, f, rets[0].value, wrappers=("dict",))
    if not isinstance(root.expr, ast.Name):
        raise AnalysisError(f"{rid}: {f.qual}: expected a single `return <dict>`")
    names_of_D = set(root.names)
    rd = ctx.rd(f)

    def is_D(e) -> bool:
        return isinstance(e, ast.Name) and e.id in names_of_D

    def group_key(e, depth=0) -> Optional[ast.AST]:
        """K when `e` denotes the group of key K: D[K], D.setdefault(K, ..), D.get(K), or an alias of one of these."""
        if isinstance(e, ast.Subscript) and is_D(e.value):
            return e.slice
        if isinstance(e, ast.Call) and isinstance(e.func, ast.Attribute) and e.func.attr in ("setdefault", "get") \
                and is_D(e.func.value) and e.args:
            return e.args[0]
        if isinstance(e, ast.Name) and isinstance(e.ctx, ast.Load) and depth < 4 and not is_D(e):
            defs = rd.defs_reaching(e)
            if len(defs) == 1:
                v = assigned_value(defs[0], e.id)
                if v is not None:
                    return group_key(v, depth + 1)
        return None

    # ---- creation of a group
    creates = []
    for st in walk_shallow(f.node):
        if isinstance(st, ast.Assign) and len(st.targets) == 1 and isinstance(st.targets[0], ast.Subscript) \
                and is_D(st.targets[0].value) and _is_dict_ctor(st.value):
            creates.append((st, st.targets[0].slice))
        elif isinstance(st, ast.Call) and isinstance(st.func, ast.Attribute) and st.func.attr == "setdefault" and is_D(st.func.value) \
                and len(st.args) == 2 and _is_dict_ctor(st.args[1]):
            creates.append((stmt_of(ctx.cfg(f), st), st.args[0]))
    if not creates and root.defstmt is not None:
        v = assigned_value(root.defstmt, root.expr.id)
        if isinstance(v, ast.Call) and call_name(v) == "defaultdict" and v.args and (
                (isinstance(v.args[0], ast.Name) and v.args[0].id in DICT_CTORS)
                or (isinstance(v.args[0], ast.Lambda) and _is_dict_ctor(v.args[0].body))):
            # groups spring into existence at the first `D[K]`
            for n in walk_shallow(f.node):
                if isinstance(n, ast.Subscript) and is_D(n.value) and any(isinstance(a, ast.For) for a in _anc(n)):
                    creates.append((stmt_of(ctx.cfg(f), n), n.slice))
                    break
    if not creates:
        raise AnalysisError(f"{rid}: {f.qual}: group creation `{root.expr.id}[key] = dict()` not found (unrecognised grouping form)")
    if len({ast.dump(k) for _s, k in creates}) != 1:
        raise AnalysisError(f"{rid}: {f.qual}: groups are created under several different keys (unrecognised grouping form)")
    create, key_expr = creates[-1]
    loop = next((a for a in _anc(create) if isinstance(a, ast.For)), None)
    if loop is None:
        raise AnalysisError(f"{rid}: {f.qual}: group creation is not inside a loop over the records")
    # ---- accesses of a field of the group: <group>[F] or a call that receives the group and F
    field_loops = []

    def note_field(name_node, at):
        fl = next((a for a in _anc(at) if isinstance(a, ast.For) and name_node.id in target_names(a.target)), None)
        if fl is not None and fl not in field_loops:
            field_loops.append(fl)
    helper_calls = []
    for n in walk_shallow(loop):
        if isinstance(n, ast.Subscript) and isinstance(n.slice, ast.Name) and not is_D(n.value):
            k = group_key(n.value)
            if k is not None and ast.dump(k) == ast.dump(key_expr):
                note_field(n.slice, n)
        elif isinstance(n, ast.Call) and not (isinstance(n.func, ast.Attribute) and is_D(n.func.value)):
            args = list(n.args) + [kw.value for kw in n.keywords]
            groups = [a for a in args if (group_key(a) is not None and ast.dump(group_key(a)) == ast.dump(key_expr))]
            if groups:
                for a in args:
                    if isinstance(a, ast.Name) and a not in groups:
                        note_field(a, n)
                helper_calls.append(n)
    if len(field_loops) != 1:
        raise AnalysisError(f"{rid}: {f.qual}: loop over the field names (a parameter) not recognised")
    fl = field_loops[0]
    it = alias_root(ctx, f, fl.iter, wrappers=("list", "tuple"))
    if not (isinstance(it.expr, ast.Name) and it.expr.id in f.params and it.defstmt is None):
        raise AnalysisError(f"{rid}: {f.qual}: loop over the field names (a parameter) not recognised")
    # ---- the code that merges one field value into the group: the field loop and private helpers that receive the group
    regions = [fl]
    for c in helper_calls:
        if contains(fl, c):
            targets, how = ctx.cg.resolve_call(f, c)
            if how == "by-name" or not targets:
                raise AnalysisError(f"{rid}: {f.qual}: the group is handed to `{ast.unparse(c.func)}`, which cannot be resolved")
            regions += [t.node for t in targets if t.node not in regions]
    tries = [n for r in regions for n in walk_shallow(r) if isinstance(n, ast.Try)]
    return dict(D=root.expr.id, key=key_expr, loop=loop, field_loop=fl, fields_param=it.expr.id, create=create, tries=tries,
                regions=regions, is_group=lambda e: group_key(e) is not None)


def _anc(n):
    p = parent(n)
    while p is not None:
        yield p
        p = parent(p)


def _key_mentions_field(ctx, f, pm, field: str) -> bool:
    """Does the grouping key expression (through reaching definitions inside the record loop) contain the record's `field`?"""
    def mentions(e, depth=0) -> bool:
        for n in ast.walk(e):
            if isinstance(n, ast.Constant) and n.value == field:
                return True
        if depth > 4:
            return False
        for n in loads(e):
            for d in ctx.rd(f).defs_reaching(n):
                if isinstance(d, ast.stmt) and in_body(pm["loop"], d):
                    v = assigned_value(d, n.id)
                    if v is not None and mentions(v, depth + 1):
                        return True
        return False
    return mentions(pm["key"])


def _merge_raises_on_conflict(pm, rid, f) -> Optional[ast.Raise]:
    """A raise inside the merge code (field loop, helpers that receive the group) that is conditioned on the stored value
    differing from the new one."""
    for region in pm["regions"]:
        for n in walk_shallow(region):
            if isinstance(n, ast.Raise):
                conds = [a for a in _anc(n) if isinstance(a, ast.If) and contains(region, a)]
                for c in conds:
                    if any(isinstance(x, ast.Compare) and any(isinstance(o, (ast.NotEq, ast.Eq, ast.IsNot, ast.Is)) for o in x.ops)
                           for x in ast.walk(c.test)):
                        return n
                if region is not pm["field_loop"] and not conds:
                    continue        # an unconditional raise of a helper (argument validation) is not part of the merge
                raise AnalysisError(f"{rid}: {f.qual}: a raise inside the field merge has an unrecognised condition")
    return None


def _stores_field(st: ast.stmt) -> bool:
    """Does the statement (or a statement nested in it) store a value into a container / extend one in place?"""
    for n in ast.walk(st):
        if isinstance(n, ast.Subscript) and isinstance(n.ctx, ast.Store):
            return True
        if isinstance(n, ast.Call) and isinstance(n.func, ast.Attribute) and n.func.attr in ("append", "extend", "update", "setdefault"):
            return True
    return False


def _drop_paths(stmts, states=frozenset([False])):
    """Walk a statement list; a state is `has the value been stored on this path`.  Returns (states of the paths that fall
    through the end, True when some path leaves early — continue / break / return — without having stored the value)."""
    dropped = False
    for st in stmts:
        if not states:
            break
        if isinstance(st, ast.Raise):
            states = frozenset()
        elif isinstance(st, (ast.Continue, ast.Break, ast.Return)):
            dropped = dropped or (False in states)
            states = frozenset()
        elif isinstance(st, ast.If):
            s1, d1 = _drop_paths(st.body, states)
            s2, d2 = _drop_paths(st.orelse, states)
            states, dropped = s1 | s2, dropped or d1 or d2
        elif isinstance(st, ast.Try):
            s1, d1 = _drop_paths(st.body, states)
            outs, dropped = s1, dropped or d1
            for h in st.handlers:
                s2, d2 = _drop_paths(h.body, states)
                outs, dropped = outs | s2, dropped or d2
            states = outs
        elif isinstance(st, (ast.For, ast.While, ast.With)):
            continue
        elif _stores_field(st):
            states = frozenset([True])
    return states, dropped


def _settles(stmts) -> bool:
    """Every path through the statement list stores the value somewhere or raises."""
    states, dropped = _drop_paths(stmts)
    return not dropped and False not in states


def _silent_discard(pm) -> Optional[ast.AST]:
    """The part of the merge code that drops the second value of a non-list field: an exception handler of the merge through
    which a path exists that neither stores the value nor raises (`if ...: pass`, an `if` without `else`, a bare `pass`,
    `if ...: continue`)."""
    for t in pm["tries"]:
        for h in t.handlers:
            if not _settles(h.body):
                return next((n for n in h.body if isinstance(n, ast.If)), h)
    return None


def r3_grouping_key_determines_scalar_fields(ctx, rid):
    cls = ctx.repo.get_class(IR, "NetworkGraph")
    prod = get_method(ctx, cls, "_collect_from_edges")
    pm = _producer_model(ctx, prod, rid)
    sites = ctx.cg.call_sites_of(prod)
    ctx.require(sites, f"{rid}: no call site of {prod.qual} found")
    n = 0
    for caller, call in sites:
        # --- fields requested at this call site
        bound = _bind_args(prod, call)
        fields_arg = bound.get(pm["fields_param"])
        fc = string_collection(ctx, caller, fields_arg) if fields_arg is not None else None
        if fc is None:
            raise AnalysisError(f"{rid}: {caller.qual}: field list handed to {prod.name} is not a constant list of field names")
        fields = list(fc[0])
        # --- pre-grouping by the caller: records come from `for _, recs in X.items()` with X = _sort_edges(.., attr)
        pre_attrs = _pregrouping_attrs(ctx, caller, bound, prod)
        # --- where does the result go?
        st = stmt_of(ctx.cfg(caller), call)
        if not (isinstance(st, ast.Assign) and st.value is call and len(st.targets) == 1 and isinstance(st.targets[0], ast.Name)):
            raise AnalysisError(f"{rid}: {caller.qual}: result of {prod.name} is not bound to a local name")
        res = st.targets[0].id
        consumers = []
        for c2, targets, _how in ctx.cg.calls.get(caller, ()):
            for a, pname in _args_with_params(c2, targets):
                if isinstance(a, ast.Name) and a.id == res and any(d is st for d in ctx.rd(caller).defs_reaching(a)):
                    for t in targets:
                        consumers.append((t, pname.get(t)))
        ctx.require(consumers, f"{rid}: {caller.qual}: the grouped records are not handed to any resolvable function")
        for cons, pname in consumers:
            if pname is None:
                raise AnalysisError(f"{rid}: cannot map the grouped records to a parameter of {cons.qual}")
            # the consumer with its private helpers spliced in: the loop over the groups may have been extracted
            cv = _view(ctx, cons)
            for gl in [l for l in walk_shallow(cv.node) if isinstance(l, ast.For)]:
                it = gl.iter
                if not (isinstance(it, ast.Call) and isinstance(it.func, ast.Attribute) and it.func.attr in ("items", "values")
                        and isinstance(it.func.value, ast.Name)):
                    continue
                src = alias_root(ctx, cv, it.func.value, wrappers=("dict",))
                if not (isinstance(src.expr, ast.Name) and src.expr.id == pname and src.defstmt is None):
                    continue
                tn = target_names(gl.target)
                gvar = tn[-1]
                for sub in walk_shallow(gl):
                    fld = _group_field_access(sub, gvar)
                    if fld is None or fld not in fields:
                        continue
                    par = parent(sub)
                    scalar = isinstance(par, ast.Attribute) and par.attr in STR_METHODS and isinstance(parent(par), ast.Call) \
                        and parent(par).func is par
                    use_st = stmt_of(ctx.cfg(cv), sub)
                    if not scalar:
                        continue
                    n += 1
                    facts = {"producer": prod.qual, "grouping_key": ast.unparse(pm["key"]), "field": fld,
                             "consumer": cons.qual, "scalar_use": norm(use_st), "caller_pregroups_by": sorted(pre_attrs)}
                    label = f"group field '{fld}' consumed as one string"
                    if _key_mentions_field(ctx, prod, pm, fld):
                        ctx.ok(rid, prod, pm["create"], f"the grouping key contains the record's '{fld}'", facts, label=label)
                        continue
                    if fld in pre_attrs:
                        ctx.ok(rid, prod, pm["create"], f"the caller hands over records that were already grouped by '{fld}'", facts, label=label)
                        continue
                    r = _merge_raises_on_conflict(pm, rid, prod)
                    if r is not None:
                        facts["raise"] = norm(r)
                        ctx.ok(rid, prod, pm["create"], f"a second, different '{fld}' in one group raises", facts, label=label)
                        continue
                    disc = _silent_discard(pm)
                    facts["second_value"] = ("silently discarded on a path through `" + norm(disc) + "`") if disc is not None else "merged into a list"
                    ctx.violation(rid, prod, pm["create"],
                                  f"{prod.qualname} groups the incoming edges of one target variable by `{ast.unparse(pm['key'])}` only, "
                                  f"but {cons.qualname} uses the group's '{fld}' as one string (`{norm(use_st)}`): two edges from "
                                  f"different variables of the same source node land in one group, the second '{fld}' is "
                                  f"{'dropped' if disc is not None else 'turned into a list'} while its weight and indices are kept, so "
                                  f"the second connection is computed from the first connection's source variable",
                                  facts, label=label)
    ctx.require(n >= 1, f"{rid}: no scalar-consumed group field found (the consumer's `group['source_var'].split(...)` vanished)")


def _view(ctx, f, keep=()):
    """f with its private helpers spliced in (engine.inline); f itself when nothing was inlined or inlining is not possible.
    `keep` = names of helpers that must stay calls (because the rule recognises them by role at the call)."""
    from engine.inline import inlined
    cache = ctx.__dict__.setdefault("_c01_views", {})
    k = (f, tuple(sorted(keep)))
    if k not in cache:
        try:
            v = inlined(ctx, f, keep=tuple(keep))
            cache[k] = v if getattr(v, "inlined_helpers", None) else f
        except AnalysisError:
            raise
        except Exception:
            cache[k] = f
    return cache[k]


def _group_field_access(node: ast.AST, gvar: str) -> Optional[str]:
    """`g['f']` or `g.get('f')` -> 'f'."""
    if isinstance(node, ast.Subscript) and isinstance(node.value, ast.Name) and node.value.id == gvar \
            and isinstance(node.slice, ast.Constant) and isinstance(node.slice.value, str) and isinstance(node.ctx, ast.Load):
        return node.slice.value
    if isinstance(node, ast.Call) and isinstance(node.func, ast.Attribute) and node.func.attr == "get" \
            and isinstance(node.func.value, ast.Name) and node.func.value.id == gvar and node.args \
            and isinstance(node.args[0], ast.Constant) and isinstance(node.args[0].value, str):
        return node.args[0].value
    return None


def _bind_args(f, call: ast.Call) -> Dict[str, ast.AST]:
    """Map the call's arguments to the parameter names of f (self skipped for attribute calls)."""
    params = list(f.params)
    if f.self_name and isinstance(call.func, ast.Attribute):
        params = params[1:]
    out: Dict[str, ast.AST] = {}
    for p, a in zip(params, call.args):
        if isinstance(a, ast.Starred):
            break
        out[p] = a
    for k in call.keywords:
        if k.arg is not None:
            out[k.arg] = k.value
    return out


def _args_with_params(call: ast.Call, targets):
    """Yield (argument expression, {target: parameter name})."""
    for i, a in enumerate(call.args):
        m = {}
        for t in targets:
            params = list(t.params)
            if t.self_name and isinstance(call.func, ast.Attribute):
                params = params[1:]
            if i < len(params):
                m[t] = params[i]
        yield a, m
    for k in call.keywords:
        if k.arg is not None:
            yield k.value, {t: k.arg for t in targets if k.arg in t.params}


def _pregrouping_attrs(ctx, caller, bound, prod) -> Set[str]:
    """Attributes by which the caller already grouped the records it passes (through `_sort_edges(edges, attr)`)."""
    out: Set[str] = set()
    rec_param = [p for p in prod.params if p != prod.self_name][0]
    arg = bound.get(rec_param)
    if not isinstance(arg, ast.Name):
        return out
    for d in ctx.rd(caller).defs_reaching(arg):
        if isinstance(d, ast.For):
            for n in loads(d.iter):
                for d2 in ctx.rd(caller).defs_reaching(n):
                    v = assigned_value(d2, n.id)
                    if isinstance(v, ast.Call) and call_name(v) == "_sort_edges":
                        a = v.args[1] if len(v.args) > 1 else next((k.value for k in v.keywords if k.arg == "attr"), None)
                        if isinstance(a, ast.Constant):
                            out.add(a.value)
    return out


# ================================================================================================
# R4 fresh-name generator checks the namespace it inserts into   (also registered as C05-R1)
# ================================================================================================

GRAPH_TABLES = ("nodes", "_node", "_adj")          # membership in the MultiDiGraph's own node set


def _simulate_generator(ctx, f, rid):
    """Abstractly execute every bounded path of the generator.  Returns per Return statement a list of
    (fresh: bool, registered: bool, table: str|None, path) outcomes."""
    cfg = ctx.cfg(f)
    selfn = f.self_name
    paths = bounded_paths(cfg, max_visits=2)
    per_return: Dict[ast.Return, list] = {}
    for path in paths:
        if path[-1][0] is not cfg.EXIT:
            continue
        cls_of: Dict[str, int] = {}        # name -> value class
        nxt = [0]

        def fresh_class():
            nxt[0] += 1
            return nxt[0]
        for p in f.params:
            cls_of[p] = fresh_class()
        not_in: Dict[int, Set[str]] = {}    # value class -> tables it is known not to be a key of
        registered: Dict[int, Set[str]] = {}
        ret = None
        for k, (node, labels) in enumerate(path):
            # facts from the test of the previous header
            if k > 0:
                prev = path[k - 1][0]
                if isinstance(prev, (ast.If, ast.While)):
                    oc = branch_outcome(labels)
                    if oc is not None:
                        for name, table, is_member in membership_facts(prev.test, oc):
                            if not is_member and name in cls_of:
                                not_in.setdefault(cls_of[name], set()).add(table)
            if isinstance(node, ast.Assign):
                # registration: T[name] = ...
                for t in node.targets:
                    if isinstance(t, ast.Subscript) and isinstance(t.slice, ast.Name) and t.slice.id in cls_of:
                        registered.setdefault(cls_of[t.slice.id], set()).add(ast.unparse(t.value))
                    for nm in target_names(t) if not isinstance(t, ast.Subscript) else []:
                        v = assigned_value(node, nm)
                        if isinstance(v, ast.Name) and v.id in cls_of:
                            cls_of[nm] = cls_of[v.id]          # copy: same string value
                        else:
                            cls_of[nm] = fresh_class()         # new value: nothing is known about it
            elif isinstance(node, ast.AugAssign):
                for nm in target_names(node.target) if isinstance(node.target, ast.Name) else []:
                    cls_of[nm] = fresh_class()
            elif isinstance(node, ast.Expr) and isinstance(node.value, ast.Call) and isinstance(node.value.func, ast.Attribute) \
                    and node.value.func.attr in ("setdefault", "add") and node.value.args and isinstance(node.value.args[0], ast.Name) \
                    and node.value.args[0].id in cls_of:
                registered.setdefault(cls_of[node.value.args[0].id], set()).add(ast.unparse(node.value.func.value))
            elif isinstance(node, (ast.For, ast.With)):
                for nm in (target_names(node.target) if isinstance(node, ast.For) else []):
                    cls_of[nm] = fresh_class()
            elif isinstance(node, ast.Return):
                ret = node
                break
        if ret is None or ret.value is None:
            continue
        if not isinstance(ret.value, ast.Name):
            raise AnalysisError(f"{rid}: {f.qual}: `{norm(ret)}` does not return a plain name (unrecognised form)")
        c = cls_of.get(ret.value.id)
        tested = not_in.get(c, set())
        regd = registered.get(c, set())
        per_return.setdefault(ret, []).append((tested, regd, path))
    return cfg, per_return


def _singleton_test(ctx, f, test: ast.AST, label_param: str) -> Optional[str]:
    """`<label parameter> == <singleton label>` (either operand order; the label as literal or as a module-level named
    constant) -> the singleton label."""
    if not (isinstance(test, ast.Compare) and len(test.ops) == 1 and isinstance(test.ops[0], ast.Eq)):
        return None
    l, r = test.left, test.comparators[0]
    other = r if (isinstance(l, ast.Name) and l.id == label_param) else (l if (isinstance(r, ast.Name) and r.id == label_param) else None)
    if other is None:
        return None
    if isinstance(other, ast.Name) and not ctx.rd(f).is_local(other.id):
        other = module_constant(ctx, f.module, other.id)
    if isinstance(other, ast.Constant) and other.value in SINGLETON_LABELS:
        return other.value
    return None


def _is_graph_table(text: str, selfn: str) -> bool:
    return text == selfn or any(text == f"{selfn}.{t}" for t in GRAPH_TABLES)


def r4_fresh_name_generator(ctx, rid):
    cls = ctx.repo.get_class(CG, "ComputeGraph")
    gen = get_method(ctx, cls, "_generate_unique_label")
    selfn = gen.self_name
    req = [p for p in gen.params if p != selfn]
    ctx.require(len(req) == 1, f"{rid}: signature of {gen.qual} changed")
    label_param = req[0]
    cfg, per_return = _simulate_generator(ctx, gen, rid)
    ctx.require(per_return, f"{rid}: {gen.qual} has no returning path")
    name_tables: Set[str] = set()
    for ret, outcomes in sorted(per_return.items(), key=lambda kv: kv[0].lineno):
        # frozen exception: `if label == 't': return label`
        guard = next((d for d in cfg.dominators(ret) if isinstance(d, ast.If) and any(contains(b, ret) for b in d.body)), None)
        single = _singleton_test(ctx, gen, guard.test, label_param) if guard is not None else None
        if single is not None and isinstance(ret.value, ast.Name) and ret.value.id == label_param \
                and not any(isinstance(n, ast.Name) and n.id == label_param and isinstance(n.ctx, ast.Store) for n in walk_shallow(gen.node)):
            ctx.ok(rid, gen, ret, f"returns the requested label untested only for the singleton "
                                  f"'{single}' ({SINGLETON_LABELS[single]})",
                   label=f"singleton {single!r}", nontrivial=False)
            continue
        bad_fresh = [(t, r, p) for t, r, p in outcomes if not any(_is_graph_table(x, selfn) or x in r for x in t)]
        bad_reg = [(t, r, p) for t, r, p in outcomes if not r]
        facts = {"paths": len(outcomes), "returned": ast.unparse(ret.value)}
        if bad_fresh:
            t, r, p = bad_fresh[0]
            facts["witness"] = cfg.path_str([n for n, _ in p])
            facts["tested_not_in"] = sorted(t)
            facts["registered_in"] = sorted(r)
            ctx.violation(rid, gen, ret,
                          f"on the path {facts['witness']} the returned name `{ast.unparse(ret.value)}` is handed out without having been "
                          f"tested for membership in the name table after it was last modified (a suffix is appended and the result is "
                          f"never looked up): a variable the user called e.g. `x_v1` is silently replaced by the second variable "
                          f"called `x`, because MultiDiGraph.add_node overwrites an existing node", facts, label="returned label is fresh")
        else:
            ctx.ok(rid, gen, ret, f"on all {len(outcomes)} paths (loops unrolled) the returned name was last tested `not in` the "
                                  f"name table after its final modification", facts, label="returned label is fresh")
        if bad_reg:
            t, r, p = bad_reg[0]
            facts2 = dict(facts, witness=cfg.path_str([n for n, _ in p]))
            ctx.violation(rid, gen, ret,
                          f"on the path {facts2['witness']} the returned name is not entered into the name table: a later request "
                          f"for exactly that name would be answered with the same label and overwrite the node", facts2,
                          label="returned label is registered")
        else:
            for t, r, p in outcomes:
                name_tables |= r
            ctx.ok(rid, gen, ret, "every returned name is entered into the name table on its path", facts,
                   label="returned label is registered")
    # ---- the table that is tested must be a superset of the graph's node names: every add_node of the class goes through it.
    # Each method is looked at with its private helpers spliced in (the generator itself stays a call), so a shared
    # `store the node under this key` helper is judged in the context of the methods that call it.
    from engine.inline import inlined
    n_add = 0
    found: Dict[tuple, list] = {}           # source position of the add_node call -> [(method, view, call, owner?)]
    methods = [m for c in ctx.repo.subclasses(cls) for m in c.methods.values()]
    for m in methods:
        try:
            mv = inlined(ctx, m, keep=(gen.name,))
            if not getattr(mv, "inlined_helpers", None):
                mv = m
        except AnalysisError:
            raise
        except Exception:
            mv = m
        for call in [n for n in walk_shallow(mv.node) if isinstance(n, ast.Call) and call_name(n) == "add_node"]:
            recv = call.func.value if isinstance(call.func, ast.Attribute) else None
            is_self = (isinstance(recv, ast.Name) and recv.id == m.self_name) or \
                      (isinstance(recv, ast.Call) and isinstance(recv.func, ast.Name) and recv.func.id == "super")
            if not is_self:
                continue
            own = m.node.lineno <= call.lineno <= (m.node.end_lineno or m.node.lineno)
            found.setdefault((call.lineno, call.col_offset), []).append((m, mv, call, own))
    for pos, ctxs in sorted(found.items()):
        owner = next((x for x in ctxs if x[3]), None)
        callers = [x for x in ctxs if not x[3]]
        use = ctxs
        if owner is not None and callers:
            key0 = owner[2].args[0] if owner[2].args else None
            key_is_param = isinstance(key0, ast.Name) and key0.id in owner[0].params and \
                all(isinstance(d, ast.arguments) for d in ctx.rd(owner[1]).defs_reaching(key0))
            sites = {c for c, _call in ctx.cg.call_sites_of(owner[0])} - {owner[0]}
            if key_is_param and sites <= {x[0] for x in callers}:
                use = callers           # the key is handed in: judged at every call site instead
            else:
                use = [owner]
        for m, mv, call, _own in use:
            n_add += 1
            key = call.args[0] if call.args else None
            good = False
            src = None
            if isinstance(key, ast.Name):
                root = alias_root(ctx, mv, key, wrappers=())
                defs = ctx.rd(mv).defs_reaching(root.expr) if isinstance(root.expr, ast.Name) else []
                vals = [assigned_value(d, root.expr.id) for d in defs]
                good = bool(vals) and all(isinstance(v, ast.Call) and call_name(v) == gen.name
                                          and gen in ctx.cg.resolve_call(m, v)[0] for v in vals)
                src = [_plain(norm(d)) for d in defs]
            st = stmt_of(ctx.cfg(mv), call)
            text = _plain(norm(st))
            if good:
                # the node object and the returned label must carry the same name
                probs = _label_consistency(ctx, mv, key.id)
                if probs:
                    ctx.violation(rid, m, st, f"{m.qualname} adds the node under the generated label `{key.id}` but {probs}: "
                                              f"callers would address the node under a name that is not its graph key",
                                  {"key_defs": src}, label=text)
                else:
                    ctx.ok(rid, m, st, f"the graph key, the node's name and the returned label are the value returned by "
                                       f"{gen.name}", {"key_defs": src}, label=text)
            else:
                ctx.violation(rid, m, st,
                              f"`{text}` keys the graph node with `{ast.unparse(key) if key is not None else '?'}`, which is not "
                              f"the value returned by {gen.name}: a label that already exists silently replaces that node "
                              f"(MultiDiGraph.add_node overwrites)", {"key_defs": src}, label=text)
    ctx.require(n_add >= 2, f"{rid}: expected add_node calls in add_var and add_op of {cls.name}, found {n_add}")
    # ---- call sites that throw the returned label away must request a provably free name
    reserved = read_reserved(ctx, rid)      # effective vocabulary: empty when check_vname does not raise / is not applied
    from ._c01_util import reserved_table_concat_hits
    cv = ctx.repo.get_func("pyrates/frontend/template/operator.py", "check_vname")
    for scope, e, val, toks in reserved_table_concat_hits(ctx):
        ctx.violation(rid, cv, e, f"an entry of a reserved-name table is written as adjacent string literals {' '.join(toks)} (lost comma): they fold "
                                  f"into the single entry {val!r}, so neither name is reserved and a user variable of that name collides with a "
                                  f"generated one", {"tokens": toks}, label=f"reserved-name table entry {val!r}")
    n_sites = 0
    for mname in ("add_var", "add_op"):
        m = get_method(ctx, cls, mname)
        lab_param = "label"
        ctx.require(lab_param in m.params, f"{rid}: {m.qual} no longer has a `label` parameter")
        for caller, call in ctx.cg.call_sites_of(m):
            if not _call_binds(m, call):
                continue
            n_sites += 1
            st = stmt_of(ctx.cfg(caller), call)
            if not (isinstance(st, ast.Expr) and st.value is call):
                continue        # label or node object is kept by the caller (the node object carries its graph key as .name)
            lab = _bind_args(m, call).get(lab_param)
            facts = {"call": norm(st)}
            if isinstance(lab, ast.Name) and not ctx.rd(caller).is_local(lab.id):
                lab = module_constant(ctx, caller.module, lab.id) or lab     # a named module-level literal
            if isinstance(lab, ast.Constant) and lab.value in SINGLETON_LABELS:
                ctx.ok(rid, caller, st, f"result discarded, requested label is the singleton '{lab.value}'", facts, nontrivial=False)
                continue
            tpls = _label_templates(ctx, caller, lab)
            facts["requested_label"] = [t for t in tpls]
            why = None
            for t in tpls:
                w = None
                for piece in literal_pieces(t):
                    w = w or reserved.why(piece)
                if w is None and "⟨" not in t:
                    w = reserved.why_exact(t)
                if w is None:
                    why = None
                    break
                why = w
            if why:
                facts["reserved_because"] = why
                ctx.ok(rid, caller, st, f"result discarded and the requested label is used as graph key afterwards; sound because "
                                        f"the requested name {why} in check_vname, so no declared variable can carry it", facts)
            else:
                ctx.violation(rid, caller, st,
                              f"`{norm(st)}` discards the label that {mname} actually used and goes on with the requested one "
                              f"({', '.join(tpls) or '?'}); that name is neither a singleton nor protected by a reserved sub-string, so "
                              f"when a variable of that name exists the caller addresses the wrong node", facts)
    ctx.require(n_sites >= 8, f"{rid}: only {n_sites} call sites of add_var/add_op resolved (12 on the pinned tree)")


def _label_consistency(ctx, m, key: str) -> Optional[str]:
    """In add_var/add_op: the node object is constructed with name=<key> and the function returns <key> first."""
    probs = []
    def is_key(e) -> bool:
        if not isinstance(e, ast.Name):
            return False
        if e.id == key:
            return True
        r = alias_root(ctx, m, e, wrappers=())
        return key in r.names or (isinstance(r.expr, ast.Name) and r.expr.id == key)
    ctor = [c for c in walk_shallow(m.node) if isinstance(c, ast.Call) and any(k.arg == "name" for k in c.keywords)]
    for c in ctor:
        nm = next(k.value for k in c.keywords if k.arg == "name")
        if not is_key(nm):
            probs.append(f"the node object is constructed with name={_plain(ast.unparse(nm))}")
    if not ctor:
        raise AnalysisError(f"{m.qual}: node object construction with name=... not found")
    for r in [n for n in walk_shallow(m.node) if isinstance(n, ast.Return)]:
        v = r.value
        if isinstance(v, ast.Name):
            root = alias_root(ctx, m, v, wrappers=())
            v = root.value if root.value is not None else v
        first = v.elts[0] if isinstance(v, ast.Tuple) and v.elts else v
        if not is_key(first):
            probs.append(f"it returns `{_plain(ast.unparse(first)) if first is not None else None}` as the label")
    return "; ".join(probs) if probs else None


def _call_binds(f, call: ast.Call) -> bool:
    """Can this call bind to f's signature (required parameters supplied once)?  Filters by-name call-graph candidates."""
    a = f.node.args
    pos = [x.arg for x in a.posonlyargs + a.args]
    if f.self_name and isinstance(call.func, ast.Attribute):
        pos = pos[1:]
    n_def = len(a.defaults)
    required = pos[:len(pos) - n_def] if n_def else pos
    given = set(pos[:len(call.args)])
    for k in call.keywords:
        if k.arg is None:
            return True
        if k.arg in given:
            return False
        if k.arg not in pos and k.arg not in [x.arg for x in a.kwonlyargs] and a.kwarg is None:
            return False
        given.add(k.arg)
    if len(call.args) > len(pos) and a.vararg is None:
        return False
    return all(r in given for r in required)


def _label_templates(ctx, f, e: Optional[ast.AST], depth=0) -> List[str]:
    if e is None:
        return []
    t = fstring_template(e)
    if t is not None:
        return [t]
    if isinstance(e, ast.Name) and depth < 4:
        out = []
        for d in ctx.rd(f).defs_reaching(e):
            v = assigned_value(d, e.id)
            out += _label_templates(ctx, f, v, depth + 1) if v is not None else ["⟨" + e.id + "⟩"]
        return out or ["⟨" + e.id + "⟩"]
    return ["⟨" + ast.unparse(e) + "⟩"]


# ================================================================================================
# R6 returned names and values come from one iteration of one list
# ================================================================================================

APPENDERS = {"append"}
REORDER = {"sorted", "reversed", "set", "frozenset"}


def _return_pair(ctx, f, rid):
    rets = [n for n in walk_shallow(f.node) if isinstance(n, ast.Return)]
    if len(rets) != 1 or rets[0].value is None:
        raise AnalysisError(f"{rid}: {f.qual}: expected one `return func, args, arg_names, state_indices`")
    tup = rets[0].value
    if isinstance(tup, ast.Name):
        root = alias_root(ctx, f, tup, wrappers=())
        tup = root.value if root.value is not None else root.expr
    if not isinstance(tup, ast.Tuple) or len(tup.elts) != 4:
        raise AnalysisError(f"{rid}: {f.qual}: expected one `return func, args, arg_names, state_indices`")
    return rets[0], tup.elts[1], tup.elts[2]


def _strip_copies(e: ast.AST) -> ast.AST:
    """tuple(x) / list(x) / iter(x) / x.copy() / x[:]  ->  x   (same entries, same order)."""
    while True:
        e2 = strip_wrappers(e, ("tuple", "list", "iter"))
        if isinstance(e2, ast.Call) and isinstance(e2.func, ast.Attribute) and e2.func.attr == "copy" and not e2.args and not e2.keywords:
            e2 = e2.func.value
        if isinstance(e2, ast.Subscript) and isinstance(e2.slice, ast.Slice) and e2.slice.lower is None and e2.slice.upper is None \
                and e2.slice.step is None:
            e2 = e2.value
        if e2 is e:
            return e
        e = e2


def _copy_root(ctx, f, e: ast.AST, depth: int = 6):
    """alias_root that also looks through order-preserving copies (`x.copy()`, `x[:]`)."""
    names: List[str] = []
    r = None
    for _ in range(depth):
        r = alias_root(ctx, f, _strip_copies(e))
        names += [n for n in r.names if n not in names]
        v = _strip_copies(r.value) if r.value is not None else None
        if v is not None and v is not r.value and isinstance(v, ast.Name):
            e = v
            continue
        break
    r.names = names
    return r


def _reorders(e: ast.AST) -> bool:
    return any(isinstance(c, ast.Call) and call_name(c) in REORDER for c in ast.walk(e)) or \
        any(isinstance(s, ast.Subscript) for s in ast.walk(e))


class _Iter:
    """One pass over a list that contributes values: a `for` loop or a comprehension handed to extend / += / the initial value."""

    def __init__(self, node, stmt, target, it, body):
        self.node, self.stmt, self.target, self.it, self.body = node, stmt, target, it, body


def _append_call(V: str, val: ast.AST) -> ast.stmt:
    return ast.Expr(value=ast.Call(func=ast.Attribute(value=ast.Name(id=V, ctx=ast.Load()), attr="append", ctx=ast.Load()),
                                   args=[val], keywords=[]))


def _iter_of_comp(comp, stmt, V: str, rid, f) -> _Iter:
    if len(comp.generators) != 1 or comp.generators[0].is_async:
        raise AnalysisError(f"{rid}: {f.qual}: values are collected by a nested comprehension `{norm(comp)}` (unrecognised)")
    g = comp.generators[0]
    body: List[ast.stmt] = [_append_call(V, comp.elt)]
    if g.ifs:
        test = g.ifs[0] if len(g.ifs) == 1 else ast.BoolOp(op=ast.And(), values=list(g.ifs))
        body = [ast.If(test=test, body=body, orelse=[])]
    return _Iter(comp, stmt, g.target, g.iter, body)


def _iter_of_loop(L: ast.For) -> _Iter:
    tgt, it, body = L.target, L.iter, list(L.body)
    if isinstance(it, ast.Call) and call_name(it) == "enumerate" and len(it.args) == 1 and isinstance(tgt, (ast.Tuple, ast.List)) \
            and len(tgt.elts) == 2:
        tgt, it = tgt.elts[1], it.args[0]
    elif isinstance(it, ast.Call) and call_name(it) == "range" and len(it.args) == 1 and isinstance(it.args[0], ast.Call) \
            and call_name(it.args[0]) == "len" and len(it.args[0].args) == 1 and isinstance(tgt, ast.Name) and body \
            and isinstance(body[0], ast.Assign) and len(body[0].targets) == 1 and isinstance(body[0].targets[0], ast.Name) \
            and isinstance(body[0].value, ast.Subscript) and isinstance(body[0].value.slice, ast.Name) \
            and body[0].value.slice.id == tgt.id and ast.dump(body[0].value.value) == ast.dump(it.args[0].args[0]):
        tgt, it, body = body[0].targets[0], it.args[0].args[0], body[1:]
    return _Iter(L, L, tgt, it, body)


COMPOUND = (ast.If, ast.For, ast.AsyncFor, ast.While, ast.Try, ast.With, ast.AsyncWith, ast.Match, ast.FunctionDef,
            ast.AsyncFunctionDef, ast.ClassDef, ast.Lambda, ast.ExceptHandler)


def _subst_name(node, old: str, new: str):
    """`node` with every Name `old` replaced by Name `new`; sub-trees that do not mention `old` are the original nodes (so
    reaching definitions can still be asked for the names in them)."""
    if isinstance(node, ast.Name):
        return ast.Name(id=new, ctx=node.ctx) if node.id == old else node
    if not isinstance(node, ast.AST) or not any(isinstance(n, ast.Name) and n.id == old for n in ast.walk(node)):
        return node
    import copy as _copy
    out = _copy.copy(node)
    for field, val in ast.iter_fields(node):
        if isinstance(val, list):
            setattr(out, field, [_subst_name(x, old, new) for x in val])
        elif isinstance(val, ast.AST):
            setattr(out, field, _subst_name(val, old, new))
    return out


def _unfold_filtered_pass(ctx, f, it: "_Iter"):
    """A pass over `F` where `F = [x for x in N if cond(x)]` (an order-preserving filter of another list) is the pass over N
    whose body runs under `cond`: returns the unfolded pass and the local names of the filtered copies."""
    names: Set[str] = set()
    for _ in range(3):
        root = _copy_root(ctx, f, it.it)
        comp = strip_wrappers(root.value) if root.value is not None else None
        if not (isinstance(root.expr, ast.Name) and isinstance(comp, (ast.ListComp, ast.GeneratorExp)) and len(comp.generators) == 1
                and not comp.generators[0].is_async and isinstance(comp.generators[0].target, ast.Name)
                and isinstance(comp.elt, ast.Name) and comp.elt.id == comp.generators[0].target.id and isinstance(it.target, ast.Name)):
            break
        g = comp.generators[0]
        body = it.body
        if g.ifs:
            conds = [_subst_name(c, g.target.id, it.target.id) for c in g.ifs]
            body = [ast.If(test=conds[0] if len(conds) == 1 else ast.BoolOp(op=ast.And(), values=conds), body=list(it.body), orelse=[])]
        names |= set(root.names)
        it = _Iter(it.node, it.stmt, it.target, g.iter, body)
    return it, names


def _value_segments(ctx, f, rid, v_e):
    """How the returned value list is put together, in execution order:
    [('seed', (value, condition, stmt)) | ('iter', _Iter)], the local names of the list, the initialising statement.
    Raises AnalysisError for every construction other than: one initial list expression, then append / extend / += on the
    spine of the function (at most under one `if`), and loops on the spine whose body appends."""
    cfg, rd = ctx.cfg(f), ctx.rd(f)
    segs: List[tuple] = []          # (position, kind, payload)
    names: Set[str] = set()
    e = _strip_copies(v_e)
    init = vinit = None
    augs: List[ast.stmt] = []
    V = "⟨values⟩"
    for _ in range(6):
        if not isinstance(e, ast.Name):
            init = e
            break
        V = e.id
        names.add(V)
        # definitions that reach the use, looking through `V += [...]` (which extends the same list)
        plain, work, seen = [], list(rd.defs_reaching(e)), set()
        augs = []
        while work:
            d = work.pop()
            if id(d) in seen:
                continue
            seen.add(id(d))
            if isinstance(d, ast.AugAssign) and isinstance(d.target, ast.Name) and d.target.id == V:
                augs.append(d)
                work += rd.defs_reaching_at(d, V)
            else:
                plain.append(d)
        v = assigned_value(plain[0], V) if len(plain) == 1 and not isinstance(plain[0], ast.arguments) else None
        if v is None:
            raise AnalysisError(f"{rid}: {f.qual}: the value list `{V}` is not initialised by one list literal")
        v2 = _strip_copies(v)
        if isinstance(v2, ast.Name) and not augs:
            e = v2
            continue
        init, vinit = v, plain[0]
        break
    if init is None:
        raise AnalysisError(f"{rid}: {f.qual}: the value list `{V}` is not initialised by one list literal")

    def parse(e, cond, pos, st):
        e = strip_wrappers(e)
        if isinstance(e, (ast.List, ast.Tuple)) and not any(isinstance(x, ast.Starred) for x in e.elts):
            for x in e.elts:
                segs.append((pos, "seed", (x, cond, st)))
        elif isinstance(e, (ast.ListComp, ast.GeneratorExp)) and cond is None:
            segs.append((pos, "iter", _iter_of_comp(e, st if st is not None else stmt_of(cfg, e), V, rid, f)))
        elif isinstance(e, ast.BinOp) and isinstance(e.op, ast.Add):
            parse(e.left, cond, pos, st)
            parse(e.right, cond, pos, st)
        elif isinstance(e, ast.IfExp) and cond is None and isinstance(strip_wrappers(e.orelse), (ast.List, ast.Tuple)) \
                and not strip_wrappers(e.orelse).elts:
            parse(e.body, e.test, pos, st)
        elif isinstance(e, ast.IfExp) and cond is None and isinstance(strip_wrappers(e.body), (ast.List, ast.Tuple)) \
                and not strip_wrappers(e.body).elts:
            parse(e.orelse, ast.UnaryOp(op=ast.Not(), operand=e.test), pos, st)
        else:
            raise AnalysisError(f"{rid}: {f.qual}: the value list `{V}` is not initialised by one list literal (`{norm(e)}`)")
    parse(init, None, (getattr(vinit, "lineno", 0), getattr(vinit, "col_offset", 0)), vinit)
    if vinit is None:
        return [(k, p) for _pos, k, p in segs], [], None

    def is_V(e) -> bool:
        if not (isinstance(e, ast.Name) and e.id in names):
            return False
        defs = rd.defs_reaching(e) if isinstance(e.ctx, ast.Load) else rd.defs_reaching_at(stmt_of(cfg, e), e.id)
        return bool(defs) and all(d is vinit or d in augs or (isinstance(assigned_value(d, e.id), ast.Name)
                                                               and assigned_value(d, e.id).id in names) for d in defs)

    def place(node):
        """(statement, condition, loop on the spine) of a modification of the value list."""
        st = stmt_of(cfg, node)
        chain = []
        child = node
        for a in _anc(node):
            if a is f.node:
                break
            if isinstance(a, COMPOUND):
                chain.append((a, child))
            child = a
        chain.reverse()                 # outermost first
        if not chain:
            return st, None, None
        outer, below = chain[0]
        if isinstance(outer, (ast.For, ast.AsyncFor)) and any(contains(b, below) for b in outer.body):
            return st, None, outer
        if isinstance(outer, ast.If) and len(chain) == 1:
            if any(contains(b, below) or b is below for b in outer.body):
                return st, outer.test, None
            if any(contains(b, below) or b is below for b in outer.orelse):
                return st, ast.UnaryOp(op=ast.Not(), operand=outer.test), None
        raise AnalysisError(f"{rid}: {f.qual}: `{norm(st)}` modifies the value list inside `{norm(outer)}` (unrecognised)")
    loops: List[ast.AST] = []
    for n in walk_shallow(f.node):
        kind = arg = None
        if isinstance(n, ast.Call) and isinstance(n.func, ast.Attribute) and is_V(n.func.value):
            if n.func.attr in ("copy", "index", "count"):
                continue
            if n.func.attr not in ("append", "extend") or len(n.args) != 1 or n.keywords:
                raise AnalysisError(f"{rid}: {f.qual}: value list `{V}` is modified by `{ast.unparse(n)}` (unrecognised)")
            kind, arg = n.func.attr, n.args[0]
        elif isinstance(n, ast.AugAssign) and isinstance(n.target, ast.Name) and (n in augs or is_V(n.target)):
            if not isinstance(n.op, ast.Add):
                raise AnalysisError(f"{rid}: {f.qual}: value list `{V}` is modified by `{norm(n)}` (unrecognised)")
            kind, arg = "extend", n.value
        elif isinstance(n, ast.Subscript) and isinstance(n.ctx, (ast.Store, ast.Del)) and is_V(n.value):
            raise AnalysisError(f"{rid}: {f.qual}: value list `{V}` is modified by `{norm(stmt_of(cfg, n))}` (unrecognised)")
        if kind is None:
            continue
        st, cond, loop = place(n)
        if loop is not None:
            if loop not in loops:
                loops.append(loop)
                segs.append(((loop.lineno, loop.col_offset), "iter", _iter_of_loop(loop)))
            continue
        pos = (st.lineno, st.col_offset)
        if kind == "append":
            segs.append((pos, "seed", (arg, cond, st)))
        else:
            parse(arg, cond, pos, st)
    segs.sort(key=lambda s: s[0])
    return [(k, p) for _pos, k, p in segs], [V] + sorted(names - {V}), vinit


def _elem_key(ctx, f, e: ast.AST) -> str:
    if isinstance(e, ast.Constant):
        return repr(e.value)
    if isinstance(e, ast.Name) and isinstance(e.ctx, ast.Load):
        try:
            r = alias_root(ctx, f, e, wrappers=())
        except Exception:
            return e.id
        if r.value is not None and isinstance(r.value, ast.Constant):
            return repr(r.value.value)
        if isinstance(r.expr, ast.Name) and r.defstmt is None and not ctx.rd(f).is_local(r.expr.id):
            c = module_constant(ctx, f.module, r.expr.id)       # a named module-level constant (`_HIST_ARG = 'hist'`)
            if c is not None:
                return repr(c.value)
        return r.expr.id if isinstance(r.expr, ast.Name) else ast.unparse(r.expr)
    return ast.unparse(e)


def _name_test(ctx, f, test: ast.AST, a: str):
    """Classify a test on the iteration's name `a`: ('in', {keys}) — true iff a is one of these names; ('notin', {keys});
    'unknown' — reads `a` in another way; None — does not read `a`."""
    def is_a(e):
        return isinstance(e, ast.Name) and e.id == a

    def coll(e) -> Optional[List[ast.AST]]:
        e = strip_wrappers(e, ("tuple", "list", "set", "frozenset"))
        if isinstance(e, (ast.Tuple, ast.List, ast.Set)) and not any(isinstance(x, ast.Starred) for x in e.elts):
            return list(e.elts)
        if isinstance(e, ast.Name) and e.id != a:
            try:
                r = alias_root(ctx, f, e, wrappers=("tuple", "list", "set", "frozenset"))
            except Exception:
                return None
            v = strip_wrappers(r.value, ("tuple", "list", "set", "frozenset")) if r.value is not None else None
            if isinstance(v, (ast.Tuple, ast.List, ast.Set)) and not any(isinstance(x, ast.Starred) for x in v.elts):
                return list(v.elts)
        return None
    if isinstance(test, ast.UnaryOp) and isinstance(test.op, ast.Not):
        r = _name_test(ctx, f, test.operand, a)
        if isinstance(r, tuple):
            return ("notin" if r[0] == "in" else "in", r[1])
        return r
    if isinstance(test, ast.Compare) and len(test.ops) == 1:
        l, op, r = test.left, test.ops[0], test.comparators[0]
        if isinstance(op, (ast.Eq, ast.NotEq)):
            other = r if is_a(l) else (l if is_a(r) else None)
            if other is not None and a not in load_ids(other):
                return ("in" if isinstance(op, ast.Eq) else "notin", {_elem_key(ctx, f, other)})
        if isinstance(op, (ast.In, ast.NotIn)) and is_a(l):
            c = coll(r)
            if c is not None and all(a not in load_ids(x) for x in c):
                return ("in" if isinstance(op, ast.In) else "notin", {_elem_key(ctx, f, x) for x in c})
    if isinstance(test, ast.BoolOp):
        parts = [_name_test(ctx, f, v, a) for v in test.values]
        if all(isinstance(p, tuple) for p in parts):
            want = "in" if isinstance(test.op, ast.Or) else "notin"
            if all(p[0] == want for p in parts):
                return (want, set().union(*[p[1] for p in parts]))
    return "unknown" if a in load_ids(test) else None


class _IterState:
    __slots__ = ("pos", "neg", "count", "values", "rebound", "done")

    def __init__(self, pos=None, neg=frozenset(), count=0, values=(), rebound=False, done=False):
        self.pos, self.neg, self.count, self.values, self.rebound, self.done = pos, neg, count, values, rebound, done

    def clone(self, **kw):
        s = _IterState(self.pos, self.neg, self.count, self.values, self.rebound, self.done)
        for k, v in kw.items():
            setattr(s, k, v)
        return s

    def constrain(self, kind: str, keys) -> Optional["_IterState"]:
        keys = frozenset(keys)
        if kind == "in":
            pos = (keys if self.pos is None else self.pos & keys) - self.neg
            return self.clone(pos=pos) if pos else None
        neg = self.neg | keys
        pos = None if self.pos is None else self.pos - keys
        if pos is not None and not pos:
            return None
        return self.clone(pos=pos, neg=neg)


def _iteration_outcomes(ctx, f, rid, it: _Iter, a: str, vnames, problems: List[str]) -> List[_IterState]:
    """All paths through one iteration of the value-collecting pass, with the constraints they put on the iteration's name."""
    vnames = set(vnames)

    def v_call(c):
        return isinstance(c, ast.Call) and isinstance(c.func, ast.Attribute) and isinstance(c.func.value, ast.Name) \
            and c.func.value.id in vnames

    def touches(st) -> bool:
        return any(v_call(c) or (isinstance(c, ast.AugAssign) and isinstance(c.target, ast.Name) and c.target.id in vnames)
                   for c in ast.walk(st))

    def implied(test, outcome: bool) -> List[List[tuple]]:
        """The ways in which `test` can evaluate to `outcome`, each as a list of constraints on the iteration's name
        (`A and B` is false when A is false, or when A is true and B is false)."""
        t = _name_test(ctx, f, test, a)
        if isinstance(t, tuple):
            return [[(t[0] if outcome else ("notin" if t[0] == "in" else "in"), t[1])]]
        if isinstance(test, ast.UnaryOp) and isinstance(test.op, ast.Not):
            return implied(test.operand, not outcome)
        if isinstance(test, ast.BoolOp) and len(test.values) <= 4:
            all_of = isinstance(test.op, ast.And) == outcome      # every operand evaluates to `outcome`
            if all_of:
                alts: List[List[tuple]] = [[]]
                for v in test.values:
                    alts = [x + y for x in alts for y in implied(v, outcome)]
                return alts
            alts, before = [], [[]]
            for v in test.values:
                alts += [x + y for x in before for y in implied(v, outcome)]
                before = [x + y for x in before for y in implied(v, not outcome)]
            return alts
        return [[]]

    def split(s: _IterState, test, then, orelse) -> List[_IterState]:
        out = []
        for outcome, branch in ((True, then), (False, orelse)):
            for alt in ([[]] if s.rebound else implied(test, outcome)):
                s2 = s.clone()
                for kind, keys in alt:
                    s2 = s2.constrain(kind, keys)
                    if s2 is None:
                        break
                if s2 is not None:
                    out += branch(s2)
        return out

    def add_value(s: _IterState, val) -> List[_IterState]:
        if isinstance(val, ast.IfExp):
            return split(s, val.test, lambda x: add_value(x, val.body), lambda x: add_value(x, val.orelse))
        return [s.clone(count=s.count + 1, values=s.values + ((val, s.rebound),))]

    def walk(stmts, states: List[_IterState]) -> List[_IterState]:
        for st in stmts:
            new: List[_IterState] = []
            for s in states:
                if s.done:
                    new.append(s)
                elif isinstance(st, ast.If):
                    new += split(s, st.test, lambda x: walk(st.body, [x]), lambda x: walk(st.orelse, [x]))
                elif isinstance(st, ast.Continue):
                    new.append(s.clone(done=True))
                elif isinstance(st, ast.Raise):
                    pass                        # the iteration does not complete on this path
                elif isinstance(st, (ast.Break, ast.Return)):
                    raise AnalysisError(f"{rid}: {f.qual}: `{norm(st)}` leaves the value-collecting loop early (unrecognised)")
                elif isinstance(st, (ast.For, ast.AsyncFor, ast.While)):
                    if touches(st):
                        problems.append(f"values are appended inside a nested `{norm(st)}`")
                    new.append(s.clone(rebound=s.rebound or a in _names_bound_in(st)))
                elif isinstance(st, (ast.Try, ast.With, ast.AsyncWith, ast.Match)):
                    if touches(st):
                        raise AnalysisError(f"{rid}: {f.qual}: values are appended inside `{norm(st)}` (unrecognised)")
                    new.append(s.clone(rebound=s.rebound or a in _names_bound_in(st)))
                elif isinstance(st, ast.Expr) and isinstance(st.value, ast.IfExp):
                    # `V.append(x) if c else None` as a statement
                    ie = st.value
                    new += split(s, ie.test, lambda x: walk([ast.Expr(value=ie.body)], [x]), lambda x: walk([ast.Expr(value=ie.orelse)], [x]))
                else:
                    cur = [s]
                    calls = [c for c in ast.walk(st) if v_call(c)]
                    for c in calls:
                        if not (isinstance(st, ast.Expr) and st.value is c) and _conditionally_evaluated(c, st):
                            raise AnalysisError(f"{rid}: {f.qual}: `{ast.unparse(c)}` is evaluated conditionally inside `{norm(st)}` (unrecognised)")
                        if c.func.attr in ("copy", "index", "count"):
                            continue
                        if c.func.attr == "append" and len(c.args) == 1:
                            cur = [s3 for s2 in cur for s3 in add_value(s2, c.args[0])]
                        elif c.func.attr == "extend" and len(c.args) == 1 and isinstance(c.args[0], (ast.List, ast.Tuple)) \
                                and not any(isinstance(x, ast.Starred) for x in c.args[0].elts):
                            for x in c.args[0].elts:
                                cur = [s3 for s2 in cur for s3 in add_value(s2, x)]
                        else:
                            raise AnalysisError(f"{rid}: {f.qual}: `{ast.unparse(c)}` inside the value-collecting loop (unrecognised)")
                    if isinstance(st, ast.AugAssign) and isinstance(st.target, ast.Name) and st.target.id in vnames:
                        if isinstance(st.op, ast.Add) and isinstance(st.value, (ast.List, ast.Tuple)) \
                                and not any(isinstance(x, ast.Starred) for x in st.value.elts):
                            for x in st.value.elts:
                                cur = [s3 for s2 in cur for s3 in add_value(s2, x)]
                        else:
                            raise AnalysisError(f"{rid}: {f.qual}: `{norm(st)}` inside the value-collecting loop (unrecognised)")
                    rb = a in target_names_of_stmt(st)
                    new += [s2.clone(rebound=s2.rebound or rb) for s2 in cur]
            states = new
        return states
    return walk(it.body, [_IterState()])


def _conditionally_evaluated(node: ast.AST, within: ast.AST) -> bool:
    """Is `node` inside a conditional expression, a short-circuit operand, a comprehension or a lambda of statement `within`?"""
    child, p = node, parent(node)
    while p is not None and child is not within:
        if isinstance(p, (ast.IfExp, ast.Lambda, ast.ListComp, ast.SetComp, ast.DictComp, ast.GeneratorExp)):
            return True
        if isinstance(p, ast.BoolOp) and p.values and p.values[0] is not child:
            return True
        child, p = p, parent(p)
    return False


def _names_bound_in(st: ast.AST) -> Set[str]:
    out: Set[str] = set()
    for n in ast.walk(st):
        if isinstance(n, ast.Name) and isinstance(n.ctx, (ast.Store, ast.Del)):
            out.add(n.id)
    return out


def _conjuncts(ctx, f, e: Optional[ast.AST], binding=None, outer=None) -> Optional[Set[str]]:
    """The condition as a set of conjunct texts, local single-definition aliases inlined (`a and b` == `b and a`).
    With `binding` (parameter of f -> argument expression in `outer`) the condition of a helper is expressed in the caller's terms."""
    import copy as _copy
    from engine.util import inline_locals
    if e is None:
        return None
    try:
        e = inline_locals(ctx, f, e)
    except Exception:
        pass
    if binding:
        bound = {}
        for k, x in binding.items():
            try:
                bound[k] = inline_locals(ctx, outer, x)
            except Exception:
                bound[k] = x

        def S(n):
            if isinstance(n, ast.Name) and n.id in bound:
                return _copy.copy(bound[n.id])
            if not isinstance(n, ast.AST):
                return n
            new = _copy.copy(n)
            for field, val in ast.iter_fields(n):
                if isinstance(val, list):
                    setattr(new, field, [S(x) if isinstance(x, ast.AST) else x for x in val])
                elif isinstance(val, ast.AST):
                    setattr(new, field, S(val))
            return new
        e = S(e)
    parts = []

    def rec(x):
        if isinstance(x, ast.BoolOp) and isinstance(x.op, ast.And):
            for v in x.values:
                rec(v)
        elif isinstance(x, ast.Call) and isinstance(x.func, ast.Name) and x.func.id == "bool" and len(x.args) == 1:
            rec(x.args[0])
        else:
            parts.append(ast.unparse(x))
    rec(e)
    return set(parts)


def _head_prefix_contract(ctx, rid):
    """Every generate_func_head implementation returns ['t', <state_var>] (+ ['hist'] iff add_hist_func) + parameters.

    Decided by abstract execution of every path of the implementation (see _c01_util.list_shapes): the known leading
    entries of the returned list and the truth value of the flags branched on.  Private helpers are looked through."""
    base = ctx.repo.get_class("pyrates/backend/base/base_backend.py", "BaseBackend")
    impls = []
    for c in ctx.repo.subclasses(base):
        m = c.methods.get("generate_func_head")
        if m is not None:
            impls.append(m)
    ctx.require(impls, f"{rid}: no generate_func_head implementation found")
    out = []
    for m in impls:
        rets = [n for n in walk_shallow(m.node) if isinstance(n, ast.Return)]
        if not rets:
            raise AnalysisError(f"{rid}: {m.qual}: unrecognised return")
        r = rets[-1]
        for p in ("state_var", "add_hist_func"):
            if p not in m.params:
                raise AnalysisError(f"{rid}: {m.qual}: parameter `{p}` vanished (signature changed)")
        results = list_shapes(ctx, m)
        if not results:
            raise AnalysisError(f"{rid}: {m.qual}: no returning path")
        if all(isinstance(v, Delegate) for _f, v, _s in results):
            out.append((m, r, True, "delegates to the parent implementation"))
            continue
        verdicts = []           # (has_hist, flag_fact)
        problems = []
        for facts, v, store in results:
            if isinstance(v, Delegate):
                continue
            if not isinstance(v, LVal) or v.bad:
                raise AnalysisError(f"{rid}: {m.qual}: the returned argument-name list is built in an unrecognised way ({v!r})")
            k = v.elems
            if len(k) < 2:
                raise AnalysisError(f"{rid}: {m.qual}: the two leading entries of the returned list are not statically known ({v!r})")
            if not k[0].is_const and k[0].key not in m.params:
                raise AnalysisError(f"{rid}: {m.qual}: the first entry of the returned list is not a literal ({v!r})")
            if not (k[0].is_const and k[0].const == "t"):
                problems.append(f"the first entry is {k[0]!r}, expected 't'")
            if k[1].key != "state_var":
                if k[1].is_const or k[1].key in m.params or any(e.key == "state_var" for e in k):
                    problems.append(f"the second entry is {k[1]!r}, expected the state-vector name `state_var`")
                else:
                    raise AnalysisError(f"{rid}: {m.qual}: the second entry of the returned list is not recognised ({v!r})")
            hist_pos = [i for i, e in enumerate(k) if e.is_const and e.const == "hist"]
            if hist_pos and hist_pos != [2]:
                problems.append(f"'hist' is entry {hist_pos} of the returned list, expected entry 2")
            flag = store.get("add_hist_func")
            if not isinstance(flag, Scalar):
                raise AnalysisError(f"{rid}: {m.qual}: `add_hist_func` is re-bound to a list (unrecognised)")
            fact = facts.get(flag.key) if not flag.is_const else bool(flag.const)
            if not flag.is_const and facts.get(flag.key + "∅") is True:
                fact = None             # the flag is None on this path: the backend-level default decides (resolved below)
            verdicts.append((bool(hist_pos), fact, repr(v), facts))
        # the flag was not given (`add_hist_func is None`): the backend-level default decides — the one attribute of self whose
        # truth value was branched on and agrees with the presence of 'hist' on every such path
        open_ = [x for x in verdicts if x[1] is None and x[3].get("add_hist_func∅") is True]
        if open_ and m.self_name:
            keys = set.intersection(*[{k for k in x[3] if k.startswith(m.self_name + ".") and not k.endswith("∅")} for x in open_])
            keys = {k for k in keys if all(x[3][k] == x[0] for x in open_)}
            if len(keys) == 1 and len({x[0] for x in open_}) == 2:
                verdicts = [x if x not in open_ else (x[0], x[0], x[2], x[3]) for x in verdicts]
        verdicts = [x[:3] for x in verdicts]
        for has_hist, fact, txt in verdicts:
            if fact is not None and has_hist != fact:
                problems.append(f"with add_hist_func {'true' if fact else 'false'} the returned list is {txt}")
        undecided = [x for x in verdicts if x[1] is None]
        if undecided and not problems:
            if len({h for h, _f, _v in verdicts}) == 1:
                problems.append(f"'hist' is {'always' if verdicts[0][0] else 'never'} part of the returned list, whatever add_hist_func says")
            else:
                raise AnalysisError(f"{rid}: {m.qual}: whether 'hist' is part of the returned list is not decided by a recognised test "
                                    f"of add_hist_func ({undecided[0][2]})")
        problems = sorted(set(problems))
        if problems:
            out.append((m, r, False, "; ".join(problems)))
        else:
            out.append((m, r, True, "prefix ['t', state_var] (+ 'hist' iff add_hist_func) followed by the parameters"))
    return out


def r6_names_and_values_from_one_iteration(ctx, rid):
    cls = ctx.repo.get_class(CG, "ComputeGraph")
    heads = _head_prefix_contract(ctx, rid)
    for m, r, ok, why in heads:
        if ok:
            ctx.ok(rid, m, r, f"argument-name list: {why}", label="head prefix contract")
        else:
            ctx.violation(rid, m, r, f"generate_func_head must return ['t', state_var(, 'hist')] + parameter names in that order "
                                     f"(callers seed / slice the leading entries by position): {why}", label="head prefix contract")
    base_head = get_method(ctx, ctx.repo.get_class("pyrates/backend/base/base_backend.py", "BaseBackend"), "generate_func_head")
    HIST = repr("hist")
    for fname in ("to_func", "get_jacobian_func"):
        f = get_method(ctx, cls, fname)
        selfn = f.self_name
        cfg = ctx.cfg(f)
        ret, v_e, n_e = _return_pair(ctx, f, rid)
        # ---- names: the list returned by generate_func_head, possibly re-packaged in the same order
        nroot = _copy_root(ctx, f, n_e)
        head_call = nroot.value if isinstance(nroot.expr, ast.Name) else nroot.expr
        if not (isinstance(head_call, ast.Call) and call_name(head_call) == "generate_func_head"):
            shown = head_call if head_call is not None else n_e
            if _reorders(n_e) or (head_call is not None and _reorders(head_call)):
                ctx.violation(rid, f, ret, f"the returned argument names `{ast.unparse(n_e)}` are a re-ordered / re-sliced copy of the "
                                           f"list the values were collected from (`{ast.unparse(shown)}`): value k no longer belongs to name k",
                              label="returned names")
                continue
            if isinstance(nroot.expr, ast.Name):
                raise AnalysisError(f"{rid}: {f.qual}: the returned name list `{nroot.expr.id}` is not (only) the result of generate_func_head")
            raise AnalysisError(f"{rid}: {f.qual}: returned names `{ast.unparse(n_e)}` have an unrecognised form")
        if not isinstance(nroot.expr, ast.Name):
            raise AnalysisError(f"{rid}: {f.qual}: returned names `{ast.unparse(n_e)}` have an unrecognised form")
        N, ndef, n_names = nroot.expr.id, nroot.defstmt, set(nroot.names)
        # ---- values: seeds, then one pass over a list — built here or by a private helper the result is taken from
        vf, binding, site = f, {}, None
        vr = _copy_root(ctx, f, v_e)
        vcall = vr.value if isinstance(vr.expr, ast.Name) else vr.expr
        if isinstance(vcall, ast.Call) and call_name(vcall) not in ("list", "tuple"):
            targets, how = ctx.cg.resolve_call(f, vcall)
            hrets = [n for n in walk_shallow(targets[0].node) if isinstance(n, ast.Return)] if len(targets) == 1 else []
            if len(targets) != 1 or how == "by-name" or len(hrets) != 1 or hrets[0].value is None:
                raise AnalysisError(f"{rid}: {f.qual}: the values come from `{ast.unparse(vcall.func)}(…)`, which cannot be resolved to one "
                                    f"function with one return")
            vf, site = targets[0], stmt_of(cfg, vcall)
            binding = _bind_args(vf, vcall)
            v_e = hrets[0].value

        def outer_key(key: str) -> str:
            """A name key of the helper's frame in terms of the caller (parameter -> the argument it is bound to)."""
            return _elem_key(ctx, f, binding[key]) if key in binding else key

        def outer_ids(e: ast.AST) -> Set[str]:
            out: Set[str] = set()
            for nm in load_ids(e):
                out |= load_ids(binding[nm]) if nm in binding else {nm}
            return out
        segs, v_names, vinit = _value_segments(ctx, vf, rid, v_e)
        V = v_names[0] if v_names else "⟨values⟩"
        iters = [p for k, p in segs if k == "iter"]
        if len(iters) != 1:
            raise AnalysisError(f"{rid}: {f.qual}: values are collected in {len(iters)} loops (expected one)")
        if segs[-1][0] != "iter":
            raise AnalysisError(f"{rid}: {f.qual}: values are added to `{V}` after the pass over the names (unrecognised)")
        it, filtered_names = _unfold_filtered_pass(ctx, vf, iters[0])
        L = it.stmt if site is None else site
        seeds_all = [p for k, p in segs if k == "seed"]
        seeds = [x for x, cond, _st in seeds_all if cond is None]
        cond_seeds = [(x, cond, st) for x, cond, st in seeds_all if cond is not None]
        facts = {"names": N, "values": V, "loop": norm(it.node), "seeds": [ast.unparse(s) for s in seeds],
                 "names_from": norm(ndef)}
        # ---- the pass iterates the returned name list itself
        iroot = _copy_root(ctx, vf, it.it)
        inner_names: Set[str] = set()
        if site is not None:
            # inside a helper the list must be the parameter that the caller binds to the name list
            if isinstance(iroot.expr, ast.Name) and iroot.defstmt is None and iroot.expr.id in binding:
                inner_names = set(iroot.names)
                iroot = _copy_root(ctx, f, binding[iroot.expr.id])
                same = isinstance(iroot.expr, ast.Name) and iroot.defstmt is ndef
            else:
                same = False
        else:
            same = isinstance(iroot.expr, ast.Name) and iroot.defstmt is ndef
        if not same:
            ctx.violation(rid, f, L, f"the argument values are collected by `{norm(it.node)}` but the names returned to the user are `{N}` "
                                     f"(= {norm(ndef)}): values and names do not come from one iteration of one list, so value k "
                                     f"need not belong to name k", facts, label="one list for names and values")
            continue
        n_names |= (set(iroot.names) | (filtered_names if site is None else set())) if same else set()
        # no mutation / re-binding of N between its definition and the return
        nm_muts = [n for n in walk_shallow(f.node)
                   if (isinstance(n, ast.Call) and isinstance(n.func, ast.Attribute) and isinstance(n.func.value, ast.Name)
                       and n.func.value.id in n_names and n.func.attr in ("sort", "reverse", "pop", "insert", "append", "remove", "extend", "clear"))
                   or (isinstance(n, ast.Subscript) and isinstance(n.value, ast.Name) and n.value.id in n_names and isinstance(n.ctx, (ast.Store, ast.Del)))
                   or (isinstance(n, ast.AugAssign) and isinstance(n.target, ast.Name) and n.target.id in n_names)]
        nm_muts = [n for n in nm_muts if cfg.reachable_after(ndef, stmt_of(cfg, n))]
        if site is not None and not nm_muts:
            inner = [n for n in walk_shallow(vf.node)
                     if (isinstance(n, ast.Call) and isinstance(n.func, ast.Attribute) and isinstance(n.func.value, ast.Name)
                         and n.func.value.id in inner_names and n.func.attr in ("sort", "reverse", "pop", "insert", "append", "remove", "extend", "clear"))
                     or (isinstance(n, ast.Subscript) and isinstance(n.value, ast.Name) and n.value.id in inner_names
                         and isinstance(n.ctx, (ast.Store, ast.Del)))]
            if inner:
                ctx.violation(rid, f, site, f"the name list `{N}` is modified in place by {vf.qualname} (`{norm(stmt_of(ctx.cfg(vf), inner[0]))}`) "
                                            f"although values are paired with it by position", facts, label="one list for names and values")
                continue
        if nm_muts:
            ctx.violation(rid, f, stmt_of(cfg, nm_muts[0]), f"the name list `{N}` is modified in place (`{norm(stmt_of(cfg, nm_muts[0]))}`) "
                                                            f"although values are paired with it by position", facts,
                          label="one list for names and values")
            continue
        ctx.ok(rid, f, L, f"values are collected while iterating the very list `{N}` that is returned as the names", facts,
               label="one list for names and values")
        # ---- per iteration: exactly one value, get_var(<that name>); skipped names = seeded prefix
        if not isinstance(it.target, ast.Name):
            raise AnalysisError(f"{rid}: {f.qual}: loop target of `{norm(it.node)}` is not a single name")
        a = it.target.id
        problems: List[str] = []
        outcomes = _iteration_outcomes(ctx, vf, rid, it, a, v_names or [V], problems)
        receivers = {vf.self_name} if vf.self_name else set()
        receivers |= {p_ for p_, x in binding.items() if isinstance(x, ast.Name) and x.id == selfn}

        def is_get(val, rebound) -> bool:
            if rebound or not (isinstance(val, ast.Call) and call_name(val) == "get_var" and isinstance(val.func, ast.Attribute)
                               and isinstance(val.func.value, ast.Name) and val.func.value.id in receivers):
                return False
            first = val.args[0] if val.args else next((k.value for k in val.keywords if k.arg == "var"), None)
            return isinstance(first, ast.Name) and first.id == a
        by_name: Dict[str, List[_IterState]] = {}
        for s in outcomes:
            if s.pos is None:
                if s.count != 1:
                    problems.append(f"a path through one iteration appends {s.count} values")
                for val, rb in s.values:
                    if not is_get(val, rb):
                        problems.append(f"`{V}.append({ast.unparse(val)})` does not append {selfn}.get_var({a}, …) of the iteration's own name")
            else:
                for key in s.pos:
                    by_name.setdefault(key, []).append(s)
        skipped: List[str] = []
        by_name = {outer_key(k): ss for k, ss in by_name.items()}
        for key, ss in sorted(by_name.items()):
            counts = {s.count for s in ss}
            if counts == {0}:
                skipped.append(key)
                continue
            if counts != {1}:
                problems.append(f"for the name {key} a path through one iteration appends {sorted(counts)} values")
                continue
            if key == HIST:
                continue        # the history callable is not a graph variable: its value is whatever the branch provides
            for s in ss:
                for val, rb in s.values:
                    if not is_get(val, rb):
                        problems.append(f"`{V}.append({ast.unparse(val)})` does not append {selfn}.get_var({a}, …) of the iteration's own name")
        # ---- seeded prefix
        bound = _bind_args(base_head, head_call)
        hist_kw, sv_kw = bound.get("add_hist_func"), bound.get("state_var")
        sv_key = _elem_key(ctx, f, sv_kw) if sv_kw is not None else None
        if not skipped:
            if seeds_all:
                problems.append(f"the value list is seeded with {len(seeds_all)} entries although no name is skipped in the loop")
        else:
            if len(skipped) < 2:
                problems.append("fewer than two names are skipped although two values (time, state vector) are seeded")
            if repr("t") not in skipped:
                problems.append(f"the time variable 't' is not among the skipped names {skipped}")
            if sv_key is None or sv_key not in skipped:
                problems.append(f"the state-vector key handed to generate_func_head (`{ast.unparse(sv_kw) if sv_kw is not None else None}`) is "
                                f"not among the skipped names {skipped}")
            if len(seeds) != 2:
                problems.append(f"{len(seeds)} seeded values for the two leading names t and state vector")
            else:
                if not (isinstance(seeds[0], ast.Constant) and isinstance(seeds[0].value, (int, float))):
                    problems.append(f"the first seeded value `{ast.unparse(seeds[0])}` is not the initial time constant")
                sv_src = _state_vec_source(ctx, f, sv_kw)
                if sv_src is None:
                    raise AnalysisError(f"{rid}: {f.qual}: the state vector stored under the state-vector key "
                                        f"`{ast.unparse(sv_kw) if sv_kw is not None else None}` was not found (no add_var(..., value=<vector>) "
                                        f"defines that key)")
                if sv_src not in outer_ids(seeds[1]):
                    problems.append(f"the second seeded value `{ast.unparse(seeds[1])}` is not the state vector `{sv_src}` stored under the "
                                    f"state-vector key")
            extra = [k for k in skipped if k not in (repr("t"), sv_key, HIST)]
            if extra:
                problems.append(f"names {extra} are skipped without a seeded value")
            if HIST in skipped:
                if len(cond_seeds) != 1:
                    problems.append(f"'hist' is skipped in the loop but {len(cond_seeds)} conditional values are seeded for it")
                else:
                    _x, cond, cst = cond_seeds[0]
                    if hist_kw is None or _conjuncts(ctx, vf, cond, binding, f) != _conjuncts(ctx, f, hist_kw):
                        problems.append(f"the history callable is seeded under `{ast.unparse(cond)}` but "
                                        f"'hist' is in the name list iff `{ast.unparse(hist_kw) if hist_kw is not None else None}`")
                    elif [k for k, _p in segs].index("iter") < len(segs) - 1 or \
                            [p for k, p in segs if k == "seed"].index(cond_seeds[0]) != 2:
                        problems.append("the history callable is not seeded between the two leading values and the parameters")
            elif cond_seeds:
                problems.append("a value is appended before the loop although its name is not skipped in the loop")
        facts2 = dict(facts, skipped=sorted(skipped))
        problems = sorted(set(problems))
        if problems:
            ctx.violation(rid, f, L, f"values and names are paired by position, but: {'; '.join(problems)} — a returned value would be "
                                     f"filed under another variable's name", facts2, label="one value per name")
        else:
            ctx.ok(rid, f, L, "every iteration contributes exactly one value, get_var(<the name of that iteration>); the skipped "
                              "leading names t / state vector / hist are exactly the seeded leading values", facts2,
                   label="one value per name")


def _state_vec_source(ctx, f, sv_kw) -> Optional[str]:
    """state_var_key, y = self.add_var(label='y', value=<state_vec>, ...)  ->  '<state_vec>'.
    The add_var call may sit in a private helper: then it is looked for in f with its helpers spliced in."""
    def source(g, kw) -> Optional[str]:
        if not isinstance(kw, ast.Name):
            return None
        root = alias_root(ctx, g, kw, wrappers=())
        d = root.defstmt
        if d is None and isinstance(root.expr, ast.Name):
            defs = ctx.rd(g).defs_reaching(root.expr)
            d = defs[0] if len(defs) == 1 else None
        v = d.value if isinstance(d, ast.Assign) else None
        if isinstance(v, ast.Call) and call_name(v) == "add_var":
            val = next((k.value for k in v.keywords if k.arg == "value"), None)
            if isinstance(val, ast.Name):
                return _plain(val.id)
        return None
    r = source(f, sv_kw)
    if r is None:
        fv = _view(ctx, f)
        if fv is not f:
            for c in walk_shallow(fv.node):
                if isinstance(c, ast.Call) and call_name(c) == "generate_func_head":
                    kw = next((k.value for k in c.keywords if k.arg == "state_var"), None)
                    r = r or source(fv, kw)
    return r


def target_names_of_stmt(st) -> List[str]:
    from engine.dataflow import stmt_defs
    return stmt_defs(st)


# ================================================================================================
# R7 registering a new source of an input variable keeps the sources that are already there
# ================================================================================================

def _inputs_table_names(ctx, f) -> Dict[str, List[ast.stmt]]:
    """Local names bound to `<existing operator>['inputs']` (the per-operator table input variable -> {'sources': ...})."""
    out: Dict[str, List[ast.stmt]] = {}
    for st in walk_shallow(f.node):
        if isinstance(st, ast.Assign) and len(st.targets) == 1 and isinstance(st.targets[0], ast.Name) \
                and isinstance(st.value, ast.Subscript) and isinstance(st.value.slice, ast.Constant) and st.value.slice.value == "inputs" \
                and not isinstance(st.value.value, ast.Dict):
            out.setdefault(st.targets[0].id, []).append(st)
    return out


def _store_root(t: ast.AST) -> Optional[Tuple[ast.Name, ast.AST]]:
    """`I[k]` / `I[k]['sources']` / ... -> (I, k)."""
    chain = []
    while isinstance(t, ast.Subscript):
        chain.append(t)
        t = t.value
    if isinstance(t, ast.Name) and chain:
        return t, chain[-1].slice
    return None


def _same_defs(a, b) -> bool:
    """Two lists of reaching definitions denote the same set (their order is an artefact of set iteration)."""
    return {id(x) for x in a} == {id(x) for x in b}


def _outcome_leading_to(cfg, d, st) -> Optional[bool]:
    """The outcome of the test of the dominating `if` d under which statement st can be reached without evaluating d again
    (st in the body, in the else branch, or behind a branch that leaves early: `if k in T: continue / return`).  None when
    both outcomes lead to st."""
    def via(label):
        return any(s is st or cfg.reachable_avoiding(s, st, lambda x: x is d) is not None for s in cfg.successors(d, label))
    t, f_ = via("true"), via("false")
    if t and not f_:
        return True
    if f_ and not t:
        return False
    return None


_INLINE_SUFFIX = re.compile(r"__[A-Za-z_]\w*_\d+\b")


def _plain(text: str) -> str:
    """Text of a statement of an inlined view without the suffixes the inliner adds to helper locals."""
    return _INLINE_SUFFIX.sub("", text)


def _r7_stores(ctx, rid, f):
    """Registration stores into an existing operator's input table found in function (or inlined view) f:
    [dict(pos, st, kind, key, table, guard)] — guard is the statement that confines the store to `key not in table`
    (None = unconfined; kind 'setdefault' never replaces an entry)."""
    out = []
    tables = _inputs_table_names(ctx, f)
    if not tables:
        return out
    cfg, rd = ctx.cfg(f), ctx.rd(f)
    for st in [x for x in walk_shallow(f.node) if isinstance(x, ast.Assign)]:
        for t in st.targets:
            root = _store_root(t) if isinstance(t, ast.Subscript) else None
            if root is None or root[0].id not in tables:
                continue
            I, k = root
            cfg_st = stmt_of(cfg, st)
            if not all(any(d is b for b in tables[I.id]) for d in rd.defs_reaching_at(cfg_st, I.id)):
                continue            # the name was re-bound to something else before this store
            ktxt = ast.unparse(k)
            absent = None
            for d in cfg.dominators(cfg_st):
                if not isinstance(d, ast.If) or d is cfg_st:
                    continue
                outcome = _outcome_leading_to(cfg, d, cfg_st)
                if outcome is None:
                    continue
                for name, table, is_member in membership_facts(d.test, outcome):
                    if name == ktxt and table == I.id and not is_member:
                        same = all(_same_defs(rd.defs_reaching_at(d, x), rd.defs_reaching_at(cfg_st, x)) for x in (ktxt, I.id))
                        if same:
                            absent = d
            if absent is None:
                # `try: I[k]… except KeyError: I[k] = …` — the handler runs only when the entry is missing
                for h in [a for a in _anc(st) if isinstance(a, ast.ExceptHandler)]:
                    t2 = parent(h)
                    catches = [h.type] if not isinstance(h.type, ast.Tuple) else list(h.type.elts)
                    if isinstance(t2, ast.Try) and len(catches) == 1 and isinstance(catches[0], ast.Name) and catches[0].id == "KeyError":
                        reads = [n for b in t2.body for n in ast.walk(b) if isinstance(n, ast.Subscript) and isinstance(n.value, ast.Name)
                                 and n.value.id == I.id and ast.unparse(n.slice) == ktxt and isinstance(n.ctx, ast.Load)]
                        other = [n for b in t2.body for n in ast.walk(b) if isinstance(n, ast.Subscript) and n not in reads
                                 and not any(n is r or contains(r, n) or contains(n, r) for r in reads)]
                        if reads and not other:
                            absent = t2
            if absent is None:
                undecided = [d for d in cfg.dominators(cfg_st) if isinstance(d, (ast.If, ast.While)) and d is not cfg_st
                             and {ktxt, I.id} <= load_ids(d.test) | {ast.unparse(n) for n in ast.walk(d.test) if isinstance(n, ast.expr)}
                             and not membership_facts(d.test, True) and not membership_facts(d.test, False)]
                if undecided:
                    raise AnalysisError(f"{rid}: {f.qual}: `{_plain(norm(st))}` is guarded by `{_plain(norm(undecided[0]))}`, a test of "
                                        f"`{_plain(ktxt)}` against `{_plain(I.id)}` in an unrecognised form")
            out.append(dict(pos=(st.lineno, st.col_offset), st=st, kind="store", key=ktxt, table=tables[I.id][0], guard=absent))
    # `I.setdefault(k, {...})` never replaces an entry: counted as a registration that keeps existing sources
    for c in [x for x in walk_shallow(f.node) if isinstance(x, ast.Call)]:
        if isinstance(c.func, ast.Attribute) and c.func.attr == "setdefault" and isinstance(c.func.value, ast.Name) \
                and c.func.value.id in tables and c.args:
            cst = stmt_of(cfg, c)
            if all(any(d is b for b in tables[c.func.value.id]) for d in rd.defs_reaching_at(cst, c.func.value.id)):
                out.append(dict(pos=(cst.lineno, cst.col_offset), st=cst, kind="setdefault", key=ast.unparse(c.args[0]),
                                table=tables[c.func.value.id][0], guard=cst, call=c))
    return out


def r7_source_registration_accumulates(ctx, rid):
    """Every store is judged in the function that contains it; when it is not confined there (or its table is handed in as a
    parameter), it is judged once more in every caller with the private helpers spliced in (engine.inline), so that a guard and
    a store that a refactoring put into different functions are still seen together."""
    from engine.inline import inlined
    funcs = ctx.repo.all_functions([IR])

    def owner_of(pos):
        best = None
        for g in funcs:
            if g.node.lineno <= pos[0] <= (g.node.end_lineno or g.node.lineno):
                if best is None or g.node.lineno >= best.node.lineno:
                    best = g
        return best
    views: Dict[object, object] = {}

    def view(g):
        if g not in views:
            try:
                v = inlined(ctx, g)
                views[g] = v if getattr(v, "inlined_helpers", None) else None
            except AnalysisError:
                raise
            except Exception:
                views[g] = None
        return views[g]
    own: Dict[tuple, tuple] = {}            # pos -> (function, record)
    for f in funcs:
        for r in _r7_stores(ctx, rid, f):
            own[r["pos"]] = (f, r)
    # stores that only become visible with helpers spliced in (the table is a parameter of the helper)
    in_callers: Dict[tuple, list] = {}
    for g in funcs:
        gv = view(g)
        if gv is None:
            continue
        for r in _r7_stores(ctx, rid, gv):
            o = owner_of(r["pos"])
            if o is not None and o is not g:
                in_callers.setdefault(r["pos"], []).append((g, r, o))
    n = 0
    for pos in sorted(set(own) | set(in_callers)):
        if pos in own:
            f, r = own[pos]
        else:
            _g, r, f = in_callers[pos][0]
        contexts = in_callers.get(pos, [])
        sites = {c for c, _call in ctx.cg.call_sites_of(f)} - {f}
        st = r["st"]
        text, ktxt = _plain(norm(st)), _plain(r["key"])
        facts = {"table": _plain(norm(r["table"])), "key": ktxt, "store": text,
                 "judged_in": [f.qualname] if pos in own else sorted({g.qualname for g, _r, _o in contexts})}
        n += max(1, len(sites))
        if r["kind"] == "setdefault" and pos in own:
            ctx.ok(rid, f, st, f"`{_plain(ast.unparse(r['call']))}` creates the entry of `{ktxt}` only when it is absent "
                               f"(dict.setdefault); existing sources are kept", {"store": text}, label=text)
            continue
        guard = r["guard"] if pos in own else None
        if guard is None and contexts:
            # confined in every caller?  (all callers of the containing function must have been looked at)
            seen_callers = {g for g, _r, _o in contexts}
            if all(rr["guard"] is not None for _g, rr, _o in contexts) and sites <= seen_callers:
                guard = contexts[0][1]["guard"]
                facts["judged_in"] = sorted(g.qualname for g in seen_callers)
        if guard is not None:
            facts["guard"] = _plain(norm(guard))
            ctx.ok(rid, f, st, f"`{text}` creates the entry only on the branch where `{ktxt}` is not yet in the operator's "
                               f"input table (`{facts['guard']}`); existing sources are kept", facts, label=text)
            if len(sites) >= 2:
                # a shared registration helper: one obligation per function that registers sources through it
                for c in sorted(sites, key=lambda x: x.qual):
                    call = next(cl for cc, cl in ctx.cg.call_sites_of(f) if cc is c)
                    ctx.ok(rid, c, stmt_of(ctx.cfg(c), call), f"registers the sources of `{ktxt}` through {f.qualname}, whose store "
                                                               f"`{text}` is confined to the branch where the variable has no entry yet",
                           facts, label=f"registration `{text}` through a shared helper")
        else:
            ctx.violation(rid, f, st,
                          f"`{text}` replaces the entry of input variable `{ktxt}` in the target operator's input table "
                          f"(`{facts['table']}`) without being confined to the branch where that variable has no entry yet: "
                          f"sources registered earlier (operators of the same node whose output feeds `{ktxt}`, other edge "
                          f"operators) are dropped, so the input is no longer the sum of all its incoming connections", facts, label=text)
    ctx.require(n >= 1, f"{rid}: no registration store into an operator's input table found in {IR}")


# ================================================================================================

def r_str_membership(ctx, rid):
    """The argument lists handed to generated functions are filtered by membership in collections, never in strings
    (shared lint, see _strmember_lint): a substring test silently drops arguments whose name is a substring of e.g. 'dy'."""
    from ._strmember_lint import membership_in_string
    membership_in_string(ctx, rid)



def r9_indexed_assignment_defines_its_first_argument(ctx, rid):
    """ComputeGraph._sort_var_updates orders the algebraic equations so that each comes after the equations defining what it
    reads.  For an lhs-indexing operation `index(var, idx) = ...` the defined variable is `var`, the first argument of the
    indexing call.  The graph predecessors / _get_inputs list of that operation is ordered by the *names* of var and idx, so
    picking a fixed position of it ([0] / [-1]) registers the index constant as the defined variable for some names: readers of
    `var` are then emitted before the edge input is written."""
    import ast as _ast
    f = ctx.repo.get_func("pyrates/backend/computegraph.py", "ComputeGraph._sort_var_updates")
    # the registration list, by role: one name per equation of the function's first parameter — the equation's own key (it
    # defines that variable) or something else (lhs-indexing operation) — collected by a loop that appends to one local list
    # or by a comprehension, the choice possibly made inside a private helper that is handed the key
    first_param = next((p for p in f.params if p != f.self_name), None)

    def over_equations(it) -> bool:
        it = strip_wrappers(it, ("list", "tuple", "iter"))
        if isinstance(it, _ast.Call) and isinstance(it.func, _ast.Attribute) and it.func.attr in ("keys", "copy") and not it.args:
            it = it.func.value
        return isinstance(it, _ast.Name) and it.id == first_param

    def alternatives(e, g, key, depth=0):
        """[(value expression, function it is written in, name of the equation key there)]"""
        if isinstance(e, _ast.IfExp) and any(isinstance(x, _ast.Name) and x.id == key for x in (e.body, e.orelse)):
            return alternatives(e.body, g, key, depth) + alternatives(e.orelse, g, key, depth)
        if isinstance(e, _ast.Call) and depth < 2 and any(isinstance(x, _ast.Name) and x.id == key for x in e.args):
            targets, how = ctx.cg.resolve_call(g, e)
            if len(targets) == 1 and how != "by-name":
                h = targets[0]
                bound = _bind_args(h, e)
                pk = [p_ for p_, x in bound.items() if isinstance(x, _ast.Name) and x.id == key]
                rets = [r for r in walk_shallow(h.node) if isinstance(r, _ast.Return) and r.value is not None]
                if len(pk) == 1 and rets:
                    return [alt for r in rets for alt in alternatives(r.value, h, pk[0], depth + 1)]
        return [(e, g, key)]
    groups: Dict[str, List[tuple]] = {}
    for L in [n for n in walk_shallow(f.node) if isinstance(n, _ast.For)]:
        if not (over_equations(L.iter) and isinstance(L.target, _ast.Name)):
            continue
        for c in walk_shallow(L):
            if isinstance(c, _ast.Call) and call_name(c) == "append" and isinstance(c.func, _ast.Attribute) \
                    and isinstance(c.func.value, _ast.Name) and len(c.args) == 1 and in_body(L, c):
                groups.setdefault("list " + c.func.value.id, []).extend((alt, c) for alt in alternatives(c.args[0], f, L.target.id))
    for comp in [n for n in walk_shallow(f.node) if isinstance(n, (_ast.ListComp, _ast.GeneratorExp))]:
        if len(comp.generators) == 1 and over_equations(comp.generators[0].iter) and isinstance(comp.generators[0].target, _ast.Name) \
                and not comp.generators[0].ifs:
            groups.setdefault(f"comprehension {comp.lineno}:{comp.col_offset}", []).extend(
                (alt, comp) for alt in alternatives(comp.elt, f, comp.generators[0].target.id))
    cands = {nm: cs for nm, cs in groups.items()
             if len(cs) == 2 and sum(1 for (e, _g, k), _c in cs if isinstance(e, _ast.Name) and e.id == k) == 1}
    if len(cands) != 1:
        raise AnalysisError(f"{rid}: expected one list with two registrations (the equation's own key / the variable an lhs-indexing "
                            f"operation writes) in _sort_var_updates, found {len(cands)}")
    (regs,) = cands.values()
    # the registration on the branch where the lhs node is an operation (not a ComputeVar)
    (reg_expr, reg_f, _k), c = next(x for x in regs if not (isinstance(x[0][0], _ast.Name) and x[0][0].id == x[0][2]))

    def expand(e, depth=0):
        out = [e]
        if depth < 4:
            for n in _ast.walk(e):
                if isinstance(n, _ast.Name) and isinstance(n.ctx, _ast.Load):
                    for d in ctx.rd(reg_f).defs_reaching(n):
                        v = assigned_value(d, n.id)
                        if v is not None:
                            out += expand(v, depth + 1)
        return out
    exprs = expand(reg_expr)
    text = " ; ".join(_ast.unparse(x) for x in exprs)
    structural = any(isinstance(n, _ast.Subscript) and isinstance(n.value, _ast.Attribute) and n.value.attr == "args"
                     and isinstance(n.value.value, _ast.Attribute) and n.value.value.attr == "expr"
                     and isinstance(n.slice, _ast.Constant) and n.slice.value == 0 for x in exprs for n in _ast.walk(x))
    positional = [n for x in exprs for n in _ast.walk(x) if isinstance(n, _ast.Subscript) and isinstance(n.slice, (_ast.Constant, _ast.UnaryOp))
                  and any(isinstance(k, _ast.Call) and call_name(k) in ("_get_inputs", "predecessors") for k in _ast.walk(n.value))]
    facts = {"registered": text[:300]}
    if structural:
        ctx.ok(rid, f, c, "the variable defined by an lhs-indexing operation is read from the first argument of the indexing call", facts,
               label="defined variable of an indexed assignment")
    elif positional:
        ctx.violation(rid, f, c, f"the variable defined by an lhs-indexing operation is taken from a fixed position of its input list "
                                 f"(`{_ast.unparse(positional[0])}`), whose order depends on the variable names: for some names the index constant is "
                                 f"registered instead and readers of the assigned variable are emitted before it is written", facts,
                      label="defined variable of an indexed assignment")
    else:
        raise AnalysisError(f"{rid}: unrecognised registration `{_ast.unparse(reg_expr)}`")


RULES = [
    ("C01-R1", r1_loop_variable_discipline, 40),
    ("C01-R2", r2_accumulate_on_scatter, 1),
    ("C01-R3", r3_grouping_key_determines_scalar_fields, 1),
    ("C01-R4", r4_fresh_name_generator, 6),
    ("C01-R6", r6_names_and_values_from_one_iteration, 6),
    ("C01-R7", r7_source_registration_accumulates, 3),
    ("C01-R8", r_str_membership, 1),
    ("C01-R9", r9_indexed_assignment_defines_its_first_argument, 1),
]

# C01-R5 (state layout: one distinct extent per state variable, same layout in to_func / get_jacobian_func /
# _compute_symbolic_jacobian) is implemented by another module as C12-R2 (rules/c12.py).  It is registered here as
# C01-R5 when that module exposes it; see the bottom of this file.
try:                                                     # pragma: no cover - depends on a sibling module
    from . import c12 as _c12
    _r5 = next((fn for rid_, fn, _fl in getattr(_c12, "RULES", []) if rid_ == "C12-R2"), None)
    _fl5 = next((fl for rid_, _fn, fl in getattr(_c12, "RULES", []) if rid_ == "C12-R2"), 0)
    if _r5 is not None:
        RULES.insert(4, ("C01-R5", _r5, _fl5))
except Exception:
    pass


# ================================================================================================
# R10 an indexed (non-accumulating) edge equation is only emitted for duplicate-free target indices
# ================================================================================================

UNIQUE_CALLS = {"unique", "set", "frozenset"}


def _index_params(g) -> List[str]:
    """Parameters of an indexing helper that end up as the index of the emitted `index(var, <idx>)` text: the names in the
    holes after the first one of a returned f-string that starts with `index`."""
    out: List[str] = []
    for r in [n for n in walk_shallow(g.node) if isinstance(n, ast.Return) and isinstance(n.value, ast.JoinedStr)]:
        vals = r.value.values
        if not (vals and isinstance(vals[0], ast.Constant) and str(vals[0].value).startswith("index")):
            continue
        holes = [v.value for v in vals if isinstance(v, ast.FormattedValue)]
        for h in holes[1:]:
            for n in ast.walk(h):
                if isinstance(n, ast.Name) and n.id in g.params and n.id not in out:
                    out.append(n.id)
    return out


def _dup_test(ctx, f, test: ast.AST):
    """Parse a test that compares the number of distinct entries of a list with a length.
    -> ('dup', A, True|False)   test is true exactly when list A has (True) / has no (False) duplicates
       ('mismatch', A, B)       len(unique(A)) is compared with the length of another list B: says nothing about duplicates
       None                     not such a test."""
    pol = True
    for _ in range(4):
        while isinstance(test, ast.UnaryOp) and isinstance(test.op, ast.Not):
            test, pol = test.operand, not pol
        if isinstance(test, ast.Name):
            # a local that holds the result of the test
            defs = ctx.rd(f).defs_reaching(test)
            v = assigned_value(defs[0], test.id) if len(defs) == 1 and not isinstance(defs[0], ast.arguments) else None
            if v is None:
                return None
            test = v
            continue
        break
    if not (isinstance(test, ast.Compare) and len(test.ops) == 1):
        return None

    def resolve(e, depth=0):
        if isinstance(e, ast.Name) and depth < 4:
            defs = ctx.rd(f).defs_reaching(e)
            v = assigned_value(defs[0], e.id) if len(defs) == 1 and not isinstance(defs[0], ast.arguments) else None
            if isinstance(v, (ast.Call, ast.Attribute, ast.Name)):
                return resolve(v, depth + 1)
        return e

    def length_of(e):
        """('uniq'|'len', list expression) for len(unique(A)) / unique(A).size / len(A) / A.size"""
        e = resolve(e)
        inner = None
        if isinstance(e, ast.Call) and call_name(e) == "len" and len(e.args) == 1:
            inner = resolve(e.args[0])
        elif isinstance(e, ast.Attribute) and e.attr in ("size",):
            inner = resolve(e.value)
        if inner is None:
            return None
        if isinstance(inner, ast.Call) and call_name(inner) in UNIQUE_CALLS and len(inner.args) >= 1:
            return "uniq", inner.args[0]
        return "len", inner
    l, r = length_of(test.left), length_of(test.comparators[0])
    if l is None or r is None or {l[0], r[0]} != {"uniq", "len"}:
        return None
    op = test.ops[0]
    uniq, plain = (l, r) if l[0] == "uniq" else (r, l)
    if isinstance(op, (ast.NotEq,)):
        dup = True
    elif isinstance(op, ast.Eq):
        dup = False
    elif isinstance(op, (ast.Lt, ast.LtE, ast.Gt, ast.GtE)):
        # normalise to  len(unique) OP len(list)
        kind = type(op) if l[0] == "uniq" else {ast.Lt: ast.Gt, ast.Gt: ast.Lt, ast.LtE: ast.GtE, ast.GtE: ast.LtE}[type(op)]
        if kind is ast.Lt:
            dup = True
        elif kind is ast.GtE:
            dup = False
        else:
            return None         # `<=` is always true, `>` never: not a test
    else:
        return None
    a, b = uniq[1], plain[1]
    if not (isinstance(a, ast.Name) and isinstance(b, ast.Name)):
        return None
    if a.id != b.id or not _same_defs(ctx.rd(f).defs_reaching(a), ctx.rd(f).defs_reaching(b)):
        return "mismatch", a.id, b.id
    return "dup", a.id, dup == pol


def _r10_sites(ctx, rid, f, indexers):
    """Indexed assignment equations emitted in function (or view) f: [dict(pos, node, stmt, idx: [Name], unique: bool)]."""
    out = []
    rd, cfg = ctx.rd(f), ctx.cfg(f)
    for js in [n for n in walk_shallow(f.node) if isinstance(n, ast.JoinedStr)]:
        v = js.values
        if not (len(v) >= 2 and isinstance(v[0], ast.FormattedValue) and isinstance(v[0].value, ast.Name)
                and isinstance(v[1], ast.Constant) and re.match(r"\s*=(?!=)", str(v[1].value))):
            continue
        lhs = v[0].value
        cands: List[ast.Name] = []
        n_calls = 0
        for d in rd.defs_reaching(lhs):
            val = assigned_value(d, lhs.id)
            if not isinstance(val, ast.Call):
                continue
            try:
                targets, how = ctx.cg.resolve_call(f, val)
            except Exception:
                continue
            for g in targets:
                if g in indexers and how != "by-name":
                    n_calls += 1
                    bound = _bind_args(g, val)
                    for p_ in indexers[g]:
                        a = bound.get(p_)
                        if isinstance(a, ast.Name):
                            cands.append(a)
        if not n_calls or not cands:
            continue
        st = stmt_of(cfg, js)

        def is_unique(a: ast.Name) -> Optional[bool]:
            defs = rd.defs_reaching(a)
            vals = [assigned_value(d, a.id) for d in defs if not isinstance(d, ast.arguments)]
            if vals and len(vals) == len(defs) and all(isinstance(x, ast.Call) and call_name(x) in UNIQUE_CALLS | {"arange", "range"}
                                                        for x in vals):
                return True
            return _index_array_kind(ctx, f, a) == "unique"     # np.unique(..., return_inverse=True)[0], helper returns, aliases
        # string-valued candidates (the *name* under which the index constant is stored) are not lists
        lists = [a for a in cands if not all(isinstance(assigned_value(d, a.id), (ast.Constant, ast.JoinedStr))
                                             for d in rd.defs_reaching(a) if not isinstance(d, ast.arguments))
                 or all(isinstance(d, ast.arguments) for d in rd.defs_reaching(a))]
        if not lists:
            continue
        out.append(dict(pos=(js.lineno, js.col_offset), node=js, stmt=st, idx=lists, unique=any(is_unique(a) for a in lists)))
    return out


def _r10_guard(ctx, rid, f, site):
    """('ok', reason) | ('open', reason) — is the equation only reachable when one of its index lists is known duplicate-free?"""
    rd, cfg = ctx.rd(f), ctx.cfg(f)
    st = site["stmt"]
    names = {a.id: a for a in site["idx"]}

    def same_value(nm, at) -> bool:
        return _same_defs(rd.defs_reaching_at(at, nm), rd.defs_reaching_at(st, nm))

    def distinct_when(node, target):
        """An `if` that dominates `target` and, on the outcome leading there, proves one of the index lists duplicate-free."""
        for d in cfg.dominators(target):
            if not isinstance(d, ast.If) or d is target:
                continue
            t = _dup_test(ctx, f, d.test)
            if t is None or t[0] != "dup" or t[1] not in names or not same_value(t[1], d):
                continue
            oc = _outcome_leading_to(cfg, d, target)
            if oc is not None and (oc != t[2]):
                return d
        return None
    g = distinct_when(None, st)
    if g is not None:
        return "ok", f"dominated by `{_plain(norm(g))}` on the branch without duplicates"
    reasons = []

    def flag_ok(name: str, want: bool, at, depth=0) -> Optional[ast.AST]:
        """None when flag `name` can only have truth value `want` at statement `at` where an index list is known to be
        duplicate-free; otherwise the definition that leaves this open."""
        for fd in rd.defs_reaching_at(at, name):
            v = assigned_value(fd, name) if not isinstance(fd, ast.arguments) else None
            if isinstance(v, ast.Constant) and bool(v.value) != want:
                continue                                    # this definition cannot lead to the equation
            if not isinstance(fd, ast.arguments) and distinct_when(None, fd) is not None:
                continue                                    # assigned only where the list is duplicate-free
            if v is not None:
                w, vv = want, v
                while isinstance(vv, ast.UnaryOp) and isinstance(vv.op, ast.Not):
                    vv, w = vv.operand, not w
                if isinstance(vv, ast.Name) and depth < 4 and _dup_test(ctx, f, vv) is None:
                    if flag_ok(vv.id, w, fd, depth + 1) is None:    # a flag derived from another flag
                        continue
                # flag false => no operand of `or` is true; flag true => every operand of `and` is true
                parts = vv.values if isinstance(vv, ast.BoolOp) and isinstance(vv.op, ast.Or if not w else ast.And) else [vv]
                hit = False
                for part in parts:
                    pt = _dup_test(ctx, f, part)
                    if pt is not None and pt[0] == "dup" and pt[1] in names and same_value(pt[1], fd) and pt[2] == (not w):
                        hit = True
                if hit:
                    continue
            return fd
        return None
    for d in cfg.dominators(st):
        if not isinstance(d, ast.If) or d is st:
            continue
        t, want = d.test, _outcome_leading_to(cfg, d, st)
        if want is None:
            continue
        while isinstance(t, ast.UnaryOp) and isinstance(t.op, ast.Not):
            t, want = t.operand, not want
        if not isinstance(t, ast.Name) or not rd.defs_reaching_at(d, t.id):
            continue
        open_def = flag_ok(t.id, want, d)
        if open_def is None:
            return "ok", (f"reached only through `{_plain(norm(d))}`, and `{t.id}` is {'false' if not want else 'true'} only when the index "
                          f"list is duplicate-free")
        reasons.append(f"`{t.id}` may be {'false' if not want else 'true'} after `{_plain(norm(open_def))}` although nothing there says that "
                       f"`{'` / `'.join(sorted(_plain(x) for x in names))}` is free of duplicates")
    # anything that looks like a distinctness test but was not understood?
    for d in cfg.dominators(st):
        if isinstance(d, ast.If) and d is not st:
            t = _dup_test(ctx, f, d.test)
            if t is not None and t[0] == "mismatch" and (t[1] in names or t[2] in names):
                reasons.append(f"`{_plain(norm(d))}` compares the distinct entries of `{t[1]}` with the length of `{t[2]}`, which says nothing "
                               f"about duplicates in `{t[2]}`")
            elif t is None and any(isinstance(c, ast.Call) and call_name(c) in UNIQUE_CALLS and load_ids(c) & set(names)
                                   for c in ast.walk(d.test)):
                raise AnalysisError(f"{rid}: {f.qual}: `{_plain(norm(d))}` looks like a duplicate test of the index list in an unrecognised form")
    return "open", "; ".join(reasons) if reasons else "no test of the index list for duplicates lies on the way to it"


def r10_indexed_edge_assignment_needs_distinct_targets(ctx, rid):
    """An edge equation of the form `index(u, IDX) = …` is an assignment through an index list: when IDX holds an element
    twice only the last contribution survives, so the input is no longer the sum of its connections.  Necessary: wherever
    pyrates/ir/circuit.py emits such an equation with a per-edge index list, the list is duplicate-free by construction
    (np.unique / set / range) or the equation is reachable only where a test `len(unique(IDX)) == len(IDX)` of that very list
    holds — directly, or through a flag that can only have the required value where that test holds."""
    funcs = ctx.repo.all_functions([IR])
    indexers = {g: _index_params(g) for g in funcs}
    indexers = {g: ps for g, ps in indexers.items() if ps}
    ctx.require(indexers, f"{rid}: no helper that builds `index(var, idx)` text found in {IR}")
    seen: Dict[tuple, list] = {}
    keep = tuple(sorted({g.name for g in indexers}))
    for f0 in funcs:
        for fv in ([f0] if _view(ctx, f0, keep) is f0 else [f0, _view(ctx, f0, keep)]):
            for site in _r10_sites(ctx, rid, fv, indexers):
                own = f0.node.lineno <= site["pos"][0] <= (f0.node.end_lineno or f0.node.lineno)
                if fv is not f0 and own:
                    # the view of the owner replaces its plain form (helpers that compute the guard are spliced in)
                    seen[site["pos"]] = [x for x in seen.get(site["pos"], []) if not (x[0] is f0 and x[3])]
                seen.setdefault(site["pos"], []).append((f0, fv, site, own))
    n = 0
    for pos, entries in sorted(seen.items()):
        owner = next((e for e in entries if e[3]), None)
        judged = []
        for f0, fv, site, own in entries:
            if site["unique"]:
                judged.append((f0, fv, site, own, "ok", "indexed through a list that is built by np.unique / set / range"))
            else:
                v, why = _r10_guard(ctx, rid, fv, site)
                judged.append((f0, fv, site, own, v, why))
        rep_f, rep_site = (owner[0], owner[2]) if owner is not None else (entries[0][0], entries[0][2])
        label = "indexed assignment `" + _plain(norm(rep_site["node"])) + "`"
        facts = {"equation": _plain(norm(rep_site["node"])), "index_lists": sorted({a.id for a in rep_site["idx"]}),
                 "judged_in": sorted({e[0].qualname for e in entries})}
        own_j = next((j for j in judged if j[3]), None)
        callers = [j for j in judged if not j[3]]
        n += 1
        if own_j is not None and own_j[4] == "ok":
            ctx.ok(rid, rep_f, rep_site["stmt"], f"the indexed edge equation is {own_j[5]}", facts, label=label)
            continue
        idx_from_outside = own_j is not None and all(isinstance(d, ast.arguments) for a in own_j[2]["idx"]
                                                     for d in ctx.rd(own_j[1]).defs_reaching(a))
        sites = ({c for c, _call in ctx.cg.call_sites_of(own_j[0])} - {own_j[0]}) if own_j is not None else set()
        bad = [j for j in callers if j[4] != "ok"]
        if callers and not bad and sites <= {j[0] for j in callers}:
            ctx.ok(rid, rep_f, rep_site["stmt"], f"the indexed edge equation is {callers[0][5]} (judged in "
                                                 f"{', '.join(sorted(j[0].qualname for j in callers))})", facts, label=label)
            continue
        if idx_from_outside and not bad and not sites <= {j[0] for j in callers}:
            raise AnalysisError(f"{rid}: {rep_f.qual}: the index list of `{facts['equation']}` is a parameter and not every caller could be "
                                f"analysed with this helper spliced in (unrecognised form)")
        why = (bad[0] if bad else own_j)[5]
        ctx.violation(rid, rep_f, rep_site["stmt"],
                      f"`{facts['equation']}` assigns through the index list `{'` / `'.join(facts['index_lists'])}`; with a repeated "
                      f"index only the last edge's contribution is kept (an indexed assignment does not accumulate), and {why}: "
                      f"several connections onto one target element are silently reduced to one", facts, label=label)
    ctx.require(n >= 1, f"{rid}: no indexed edge equation (`index(u, idx) = …`) found in {IR}")


RULES.append(("C01-R10", r10_indexed_edge_assignment_needs_distinct_targets, 1))


# ================================================================================================
# R11 the equation sorter gives up only after a pass that resolved nothing
# ================================================================================================

def _r11_model(ctx, rid, f):
    """Recognise the multi-pass sorter: the `while` over the work collection (first parameter), the pass (a `for` directly in
    its body that removes resolved entries from the work collection), and the collections whose length changes by exactly one
    per resolved entry."""
    work = next((p for p in f.params if p != f.self_name), None)
    whiles = [w for w in walk_shallow(f.node) if isinstance(w, ast.While) and work in load_ids(w.test)
              and not any(isinstance(a, (ast.While, ast.For)) for a in _anc(w))]
    if len(whiles) != 1:
        raise AnalysisError(f"{rid}: {f.qual}: expected one `while` loop over the pending equations, found {len(whiles)}")
    W = whiles[0]

    def removal(n) -> bool:
        return (isinstance(n, ast.Call) and isinstance(n.func, ast.Attribute) and n.func.attr in ("pop", "remove", "discard")
                and isinstance(n.func.value, ast.Name) and n.func.value.id == work) or \
               (isinstance(n, ast.Delete) and any(isinstance(t, ast.Subscript) and isinstance(t.value, ast.Name) and t.value.id == work
                                                  for t in n.targets))
    passes = [p for p in W.body if isinstance(p, (ast.For, ast.While)) and any(removal(n) for n in ast.walk(p))]
    other = [n for st in W.body if st not in passes for n in ast.walk(st) if removal(n)]
    if len(passes) != 1 or other:
        raise AnalysisError(f"{rid}: {f.qual}: expected one pass over the pending equations inside `{norm(W)}` that removes the resolved ones")
    P = passes[0]
    rem = [n for n in ast.walk(P) if removal(n)]
    if len(rem) != 1:
        raise AnalysisError(f"{rid}: {f.qual}: the pass removes resolved equations at {len(rem)} places (expected one)")
    rst = stmt_of(ctx.cfg(f), rem[0])
    block = next((blk for a in [P] + [x for x in ast.walk(P)] for blk in (getattr(a, "body", None), getattr(a, "orelse", None))
                  if isinstance(blk, list) and rst in blk), None)
    if block is None or any(isinstance(a, (ast.For, ast.While)) and a is not P for a in _anc(rst) if contains(P, a)):
        raise AnalysisError(f"{rid}: {f.qual}: the removal `{norm(rst)}` is nested in an inner loop of the pass (unrecognised)")
    # collections that change by one per resolved equation: in the statement block of the removal, unconditionally
    delta: Dict[str, int] = {work: -1}
    for st in block:
        if isinstance(st, ast.Expr) and isinstance(st.value, ast.Call) and isinstance(st.value.func, ast.Attribute) \
                and isinstance(st.value.func.value, ast.Name):
            nm, attr = st.value.func.value.id, st.value.func.attr
            if attr == "append" and nm != work:
                delta[nm] = delta.get(nm, 0) + 1
            elif attr in ("pop", "remove") and nm != work:
                delta[nm] = delta.get(nm, 0) - 1
        elif isinstance(st, ast.Assign) and isinstance(st.value, ast.Call) and isinstance(st.value.func, ast.Attribute) \
                and isinstance(st.value.func.value, ast.Name) and st.value.func.attr == "pop" and st.value.func.value.id != work:
            delta[st.value.func.value.id] = delta.get(st.value.func.value.id, 0) - 1
    # a collection that is also changed anywhere else inside the outer loop is not a progress measure
    for nm in list(delta):
        if nm == work:
            continue
        muts = [n for n in ast.walk(W) if isinstance(n, ast.Call) and isinstance(n.func, ast.Attribute) and isinstance(n.func.value, ast.Name)
                and n.func.value.id == nm and n.func.attr in ("append", "extend", "insert", "pop", "remove", "clear")]
        if any(stmt_of(ctx.cfg(f), m) not in block for m in muts) or \
                any(isinstance(n, ast.Name) and n.id == nm and isinstance(n.ctx, ast.Store) for n in ast.walk(W)):
            del delta[nm]
    flags = {t.id for st in block if isinstance(st, ast.Assign) and isinstance(st.value, ast.Constant) and st.value.value is True
             for t in st.targets if isinstance(t, ast.Name)}
    return W, P, delta, flags


def r11_sorter_gives_up_only_without_progress(ctx, rid):
    """ComputeGraph._sort_var_updates sorts the algebraic equations in passes; when a pass resolves nothing the remaining
    equations are declared mutually dependent, emitted in declaration order and their variables become extra function arguments
    (stale values).  Necessary: every `break` out of the pass loop is a true no-progress test — with r_j the number of equations
    resolved in pass j, the break condition of pass j is equivalent to r_j == 0 for j = 1, 2, 3, 4 (counters executed
    symbolically as polynomials in N, r_1, …, r_4).  A test that mixes in the counts of earlier passes gives up although the
    pass made progress."""
    import sympy as sp
    f0 = ctx.repo.get_func(CG, "ComputeGraph._sort_var_updates")
    f = f0
    W, P, delta, flags = _r11_model(ctx, rid, f)
    N = sp.Symbol("N", integer=True, positive=True)
    NP = 4
    r = [None] + [sp.Symbol(f"r{j}", integer=True, nonnegative=True) for j in range(1, NP + 1)]
    len0: Dict[str, object] = {}
    work = next(p for p in f.params if p != f.self_name)

    def initial_len(nm):
        if nm not in len0:
            if nm == work:
                len0[nm] = N
            else:
                defs = ctx.rd(f).defs_reaching_at(W, nm)
                vals = [assigned_value(d, nm) for d in defs if not isinstance(d, ast.arguments)]
                empty = len(defs) == 1 and len(vals) == 1 and isinstance(vals[0], (ast.List, ast.Tuple, ast.Dict)) and \
                    not (getattr(vals[0], "elts", None) or getattr(vals[0], "keys", None))
                len0[nm] = sp.Integer(0) if empty else sp.Symbol(f"len0_{nm}", integer=True, nonnegative=True)
        return len0[nm]
    done = [sp.Integer(0)]          # number of equations resolved so far

    class Flag:
        def __init__(self, j, base):
            self.j, self.base = j, base

    def ev(e, env):
        if isinstance(e, ast.Constant) and isinstance(e.value, bool):
            return e.value
        if isinstance(e, ast.Constant) and isinstance(e.value, int):
            return sp.Integer(e.value)
        if isinstance(e, ast.Name):
            if e.id in env:
                return env[e.id]
            raise AnalysisError(f"{rid}: {f.qual}: `{e.id}` is read by the stuck test but its value is not a counter that was followed")
        if isinstance(e, ast.Call) and call_name(e) == "len" and len(e.args) == 1:
            a = e.args[0]
            while isinstance(a, ast.Call) and ((isinstance(a.func, ast.Attribute) and a.func.attr in ("keys", "values", "items", "copy") and not a.args)
                                               or (isinstance(a.func, ast.Name) and a.func.id in ("list", "tuple", "dict", "set") and len(a.args) == 1)):
                a = a.func.value if isinstance(a.func, ast.Attribute) else a.args[0]
            if isinstance(a, ast.Name) and a.id in delta:
                return initial_len(a.id) + delta[a.id] * done[0]
            raise AnalysisError(f"{rid}: {f.qual}: `{ast.unparse(e)}` is not the length of a collection that changes by one per resolved equation")
        if isinstance(e, ast.BinOp) and isinstance(e.op, (ast.Add, ast.Sub, ast.Mult)):
            l, rr = ev(e.left, env), ev(e.right, env)
            if isinstance(l, (bool, Flag)) or isinstance(rr, (bool, Flag)):
                raise AnalysisError(f"{rid}: {f.qual}: arithmetic on a flag in `{ast.unparse(e)}`")
            return l + rr if isinstance(e.op, ast.Add) else (l - rr if isinstance(e.op, ast.Sub) else l * rr)
        if isinstance(e, ast.UnaryOp) and isinstance(e.op, ast.USub):
            return -ev(e.operand, env)
        raise AnalysisError(f"{rid}: {f.qual}: `{ast.unparse(e)}` in the stuck test is not understood")

    def assign(st, env):
        if isinstance(st, ast.Assign) and len(st.targets) == 1:
            t, v = st.targets[0], st.value
            if isinstance(t, ast.Name):
                try:
                    env[t.id] = ev(v, env)
                except AnalysisError:
                    env.pop(t.id, None)
                return
            if isinstance(t, (ast.Tuple, ast.List)) and isinstance(v, (ast.Tuple, ast.List)) and len(t.elts) == len(v.elts):
                vals = []
                for x in v.elts:
                    try:
                        vals.append(ev(x, env))
                    except AnalysisError:
                        vals.append(None)
                for te, val in zip(t.elts, vals):
                    if isinstance(te, ast.Name):
                        if val is None:
                            env.pop(te.id, None)
                        else:
                            env[te.id] = val
                return
            for nm in target_names(t):
                env.pop(nm, None)
        elif isinstance(st, ast.AugAssign) and isinstance(st.target, ast.Name):
            try:
                cur, v = ev(st.target, env), ev(st.value, env)
                if isinstance(cur, (bool, Flag)) or isinstance(v, (bool, Flag)):
                    raise AnalysisError("flag")
                env[st.target.id] = cur + v if isinstance(st.op, ast.Add) else (cur - v if isinstance(st.op, ast.Sub) else None)
                if env[st.target.id] is None:
                    env.pop(st.target.id)
            except AnalysisError:
                env.pop(st.target.id, None)
    # ---- counters before the loop: the straight-line statements that precede it in its block
    env: Dict[str, object] = {}
    holder = parent(W)
    siblings = next(blk for blk in (getattr(holder, "body", []), getattr(holder, "orelse", [])) if W in blk)
    for st in siblings[:siblings.index(W)]:
        if isinstance(st, (ast.Assign, ast.AugAssign)):
            assign(st, env)
    breaks = [b for b in ast.walk(W) if isinstance(b, ast.Break) and not contains(P, b)
              and next(a for a in _anc(b) if isinstance(a, (ast.While, ast.For))) is W]
    if not breaks:
        raise AnalysisError(f"{rid}: {f.qual}: no `break` out of `{norm(W)}` found (the stuck test vanished or has an unrecognised form)")
    findings: Dict[ast.AST, list] = {}

    def run(stmts, env, j) -> bool:
        """Execute the statements of one iteration on the path that does not break; False when the iteration ended."""
        env["__pass__"] = j
        for st in stmts:
            if st is P:
                done[0] = done[0] + r[j]
                for fl in flags:
                    env[fl] = Flag(j, env.get(fl))
            elif isinstance(st, (ast.Assign, ast.AugAssign)):
                assign(st, env)
            elif isinstance(st, ast.If):
                has_break = any(b for b in breaks if contains(st, b))
                if not has_break:
                    if any(isinstance(n, ast.Name) and isinstance(n.ctx, ast.Store) and n.id in env for n in ast.walk(st)):
                        raise AnalysisError(f"{rid}: {f.qual}: a counter of the stuck test is updated under `{norm(st)}` (unrecognised)")
                    continue
                in_body = any(contains(x, b) or x is b for b in breaks for x in st.body)
                in_else = any(contains(x, b) or x is b for b in breaks for x in st.orelse)
                brk_branch = st.body if in_body else st.orelse
                if (in_body and in_else) or not (len(brk_branch) >= 1 and isinstance(brk_branch[-1], ast.Break)
                                                 and not any(isinstance(x, (ast.If, ast.For, ast.While)) for x in brk_branch)):
                    raise AnalysisError(f"{rid}: {f.qual}: the stuck test `{norm(st)}` has an unrecognised shape")
                findings.setdefault(st, []).append((j, _r11_condition(ctx, rid, f, st.test, in_body, env, ev, Flag)))
                if not run(st.orelse if in_body else st.body, env, j):
                    return False
            elif isinstance(st, ast.Break):
                raise AnalysisError(f"{rid}: {f.qual}: unconditional `break` in `{norm(W)}`")
            elif isinstance(st, (ast.Continue, ast.Return)):
                return False
            elif isinstance(st, (ast.For, ast.While, ast.Try, ast.With)):
                if any(isinstance(n, ast.Name) and isinstance(n.ctx, ast.Store) and n.id in env for n in ast.walk(st)):
                    raise AnalysisError(f"{rid}: {f.qual}: a counter of the stuck test is updated inside `{norm(st)}` (unrecognised)")
        return True
    for j in range(1, NP + 1):
        run(W.body, env, j)
    for st, per_pass in sorted(findings.items(), key=lambda kv: kv[0].lineno):
        facts = {"stuck_test": norm(st), "per_pass": {f"pass {j}": txt for j, (ok_, txt) in per_pass},
                 "progress_collections": {k: v for k, v in sorted(delta.items())}}
        bad = [(j, txt) for j, (ok_, txt) in per_pass if not ok_]
        label = "the sorter gives up only after a pass without progress"
        if bad:
            j, txt = bad[0]
            ctx.violation(rid, f0, st,
                          f"`{norm(st)}` is not a no-progress test: in pass {j} it breaks when {txt} (r_k = number of equations resolved "
                          f"in pass k), which can hold although pass {j} resolved equations; the sorter then declares the remaining "
                          f"equations mutually dependent, emits them in declaration order and hands their variables in as extra "
                          f"arguments with stale values", facts, label=label)
        else:
            ctx.ok(rid, f0, st, f"in each of the first {NP} passes `{norm(st)}` breaks only when the pass resolved no equation "
                                f"({'; '.join(f'pass {j}: {txt}' for j, (_o, txt) in per_pass)})", facts, label=label)
    ctx.require(findings, f"{rid}: {f.qual}: no stuck test was reached by the symbolic execution of `{norm(W)}`")


def _r11_condition(ctx, rid, f, test, breaks_when_true: bool, env, ev, Flag):
    """(is the break condition equivalent to r_j == 0?, text of the condition) for the current pass."""
    import sympy as sp
    pol = breaks_when_true
    while isinstance(test, ast.UnaryOp) and isinstance(test.op, ast.Not):
        test, pol = test.operand, not pol
    # flag form: `if not progressed: break`
    if isinstance(test, ast.Name) and isinstance(env.get(test.id), Flag):
        fl = env[test.id]
        if pol:         # breaks when the flag is true = when the pass resolved something
            return False, f"r{fl.j} > 0"
        return True, f"r{fl.j} == 0" + ("" if fl.base is False else " (and the flag was not set earlier)")
    if not (isinstance(test, ast.Compare) and len(test.ops) == 1):
        raise AnalysisError(f"{rid}: {f.qual}: the stuck test `{ast.unparse(test)}` is not a comparison of counters")
    l, rr = ev(test.left, env), ev(test.comparators[0], env)
    if isinstance(l, (bool, Flag)) or isinstance(rr, (bool, Flag)):
        raise AnalysisError(f"{rid}: {f.qual}: the stuck test `{ast.unparse(test)}` compares a flag")
    D = sp.expand(l - rr)
    op = type(test.ops[0])
    if not pol:
        op = {ast.Eq: ast.NotEq, ast.NotEq: ast.Eq, ast.Lt: ast.GtE, ast.GtE: ast.Lt, ast.Gt: ast.LtE, ast.LtE: ast.Gt}.get(op)
    sym = {ast.Eq: "==", ast.NotEq: "!=", ast.Lt: "<", ast.LtE: "<=", ast.Gt: ">", ast.GtE: ">="}.get(op)
    if sym is None:
        raise AnalysisError(f"{rid}: {f.qual}: comparison operator of `{ast.unparse(test)}` not understood")
    text = f"{D} {sym} 0"
    rs = sorted((x for x in D.free_symbols if x.name.startswith("r") and x.name[1:].isdigit()), key=lambda x: int(x.name[1:]))
    others = [x for x in D.free_symbols if x not in rs]
    if others:
        raise AnalysisError(f"{rid}: {f.qual}: the stuck test `{ast.unparse(test)}` reads {text}, which depends on more than the "
                            f"numbers of equations resolved per pass (unrecognised)")
    # the current pass is the highest one that has run; earlier passes made progress (otherwise the loop had been left)
    import itertools
    j = env.get("__pass__")
    cur = sp.Symbol(f"r{j}", integer=True, nonnegative=True)
    earlier = [x for x in rs if x != cur]
    cmp = {ast.Eq: lambda v: v == 0, ast.NotEq: lambda v: v != 0, ast.Lt: lambda v: v < 0, ast.LtE: lambda v: v <= 0,
           ast.Gt: lambda v: v > 0, ast.GtE: lambda v: v >= 0}[op]
    witness = None
    for vals in itertools.product((1, 2, 3), repeat=len(earlier) + 1):
        sub = dict(zip(earlier + [cur], vals))
        if cmp(int(D.subs(sub))):
            witness = sub
            break
    if witness is not None:
        return False, text + " — e.g. " + ", ".join(f"{k} = {v}" for k, v in sorted(witness.items(), key=lambda kv: str(kv[0])))
    fires = any(cmp(int(D.subs(dict(zip(earlier + [cur], vals + (0,)))))) for vals in itertools.product((1, 2, 3), repeat=len(earlier)))
    return True, (f"{text} only if r{j} == 0" if fires else f"{text} never holds while passes make progress")


RULES.append(("C01-R11", r11_sorter_gives_up_only_without_progress, 1))


# ================================================================================================
# R12 the container that collects the sources of one input variable is fresh for every input variable
# ================================================================================================

CONTAINER_CTORS = ("dict", "list", "set", "OrderedDict", "defaultdict")


def _is_container_creation(v: Optional[ast.AST]) -> bool:
    return isinstance(v, (ast.Dict, ast.List, ast.Set, ast.DictComp, ast.ListComp, ast.SetComp)) or \
        (isinstance(v, ast.Call) and call_name(v) in CONTAINER_CTORS)


def _r12_instances(ctx, f):
    """Loops over the sources of an input variable (`for … in <x>['sources']`) in function / view f, with the enclosing loop over
    the operator's input variables and the local containers filled inside the source loop:
    [dict(pos, LS, LV, collectors: {name: [store nodes]})]."""
    out = []
    for LS in [n for n in walk_shallow(f.node) if isinstance(n, ast.For)]:
        subs = [n for n in ast.walk(LS.iter) if isinstance(n, ast.Subscript) and isinstance(n.slice, ast.Constant) and n.slice.value == "sources"]
        if not subs:
            continue
        base = subs[0].value
        while isinstance(base, ast.Subscript):
            base = base.value
        base_name = base.id if isinstance(base, ast.Name) else None
        LV = None
        for a in _anc(LS):
            if a is f.node:
                break
            if isinstance(a, ast.For) and (
                    (base_name is not None and base_name in target_names(a.target))
                    or any(isinstance(n, ast.Subscript) and isinstance(n.slice, ast.Constant) and n.slice.value == "inputs" for n in ast.walk(a.iter))):
                LV = a
                break
        own_defs = {nm for st in ast.walk(LS) if isinstance(st, ast.stmt) and st is not LS and in_body(LS, st) for nm in target_names_of_stmt(st)}
        own_defs |= set(target_names(LS.target))
        cols: Dict[str, list] = {}
        for n in ast.walk(LS):
            if not in_body(LS, n):
                continue
            nm = None
            if isinstance(n, ast.Subscript) and isinstance(n.ctx, ast.Store) and isinstance(n.value, ast.Name):
                nm = n.value.id
            elif isinstance(n, ast.Call) and isinstance(n.func, ast.Attribute) and isinstance(n.func.value, ast.Name) \
                    and n.func.attr in ("append", "add", "update", "setdefault", "extend", "insert"):
                nm = n.func.value.id
            if nm is None or nm in own_defs or nm == f.self_name:
                continue
            cols.setdefault(nm, []).append(n)
        # keep local containers (and parameters: judged in the callers)
        rd = ctx.rd(f)
        keep = {}
        for nm, stores in cols.items():
            defs = rd.defs_reaching_at(LS, nm)
            if not defs:
                continue                        # a global / free name
            vals = [assigned_value(d, nm) if not isinstance(d, ast.arguments) else None for d in defs]
            if any(isinstance(d, ast.arguments) for d in defs) or any(_is_container_creation(v) for v in vals):
                keep[nm] = stores
        if keep:
            out.append(dict(pos=(LS.lineno, LS.col_offset), LS=LS, LV=LV, collectors=keep))
    return out


def r12_source_collector_is_fresh_per_input_variable(ctx, rid):
    """CircuitIR._collect_ops gathers, for every input variable of an operator, the sources that feed it, and hands that
    collection to the helper that builds the summed input term.  Necessary: the collection of one input variable holds only that
    variable's sources — on every path from the start of an iteration of the loop over input variables to the loop over its
    sources the container is created or cleared.  A container created outside the loop over input variables carries the sources
    of an earlier variable into a later one (its input becomes the sum of both variables' connections).
    Decided by where the container filled inside the source loop is (re)created relative to the enclosing loop over the input
    variables — with private helpers spliced in, so that extracted collection code is judged inside its caller."""
    funcs = ctx.repo.all_functions([IR])
    seen: Dict[tuple, list] = {}
    for f0 in funcs:
        views = [f0] + ([_view(ctx, f0)] if _view(ctx, f0) is not f0 else [])
        for fv in views:
            for inst in _r12_instances(ctx, fv):
                seen.setdefault(inst["pos"], []).append((f0, fv, inst))
    n = 0
    for pos, entries in sorted(seen.items()):
        owner = next((e for e in entries if e[0].node.lineno <= pos[0] <= (e[0].node.end_lineno or e[0].node.lineno) and e[1] is e[0]), entries[0])
        with_lv = [e for e in entries if e[2]["LV"] is not None]
        if not with_lv:
            raise AnalysisError(f"{rid}: {owner[0].qual}: the loop over the sources `{norm(owner[2]['LS'])}` is not nested (also not through "
                                f"private helpers) in a loop over the operator's input variables (unrecognised form)")
        # judge in the outermost context that shows the loop over input variables (one per function that contains it)
        judged = {}
        for f0, fv, inst in with_lv:
            if f0 not in judged or fv is not f0:
                judged[f0] = (fv, inst)
        if owner[0] in judged:
            judged = {owner[0]: judged[owner[0]]}       # both loops live in one function: its callers add nothing
        for f0, (fv, inst) in sorted(judged.items(), key=lambda kv: kv[0].qual):
            cfg, rd = ctx.cfg(fv), ctx.rd(fv)
            LS, LV = inst["LS"], inst["LV"]
            for nm, stores in sorted(inst["collectors"].items()):
                def is_reset(node, nm=nm):
                    if isinstance(node, (ast.Assign, ast.AnnAssign)) and nm in target_names_of_stmt(node):
                        v = assigned_value(node, nm)
                        return v is None or _is_container_creation(v) or isinstance(v, ast.Call)
                    return isinstance(node, ast.Expr) and isinstance(node.value, ast.Call) and isinstance(node.value.func, ast.Attribute) \
                        and node.value.func.attr == "clear" and isinstance(node.value.func.value, ast.Name) and node.value.func.value.id == nm
                defs = rd.defs_reaching_at(LS, nm)
                if any(isinstance(d, ast.arguments) for d in defs):
                    raise AnalysisError(f"{rid}: {f0.qual}: the container `{_plain(nm)}` filled in `{_plain(norm(LS))}` is a parameter "
                                        f"(its creation is outside the analysed context)")
                path = cfg.reachable_avoiding(LV, LS, is_reset)
                n += 1
                label = f"source collector `{_plain(nm)}` of one input variable"
                facts = {"collector": _plain(nm), "filled_in": _plain(norm(LS)), "input_variable_loop": _plain(norm(LV)),
                         "created_by": sorted({_plain(norm(d)) for d in defs})}
                if path is None:
                    ctx.ok(rid, f0, LS, f"`{_plain(nm)}` is created / cleared on every path from the start of an iteration of "
                                        f"`{_plain(norm(LV))}` to the loop over the variable's sources", facts, label=label)
                else:
                    outside = [d for d in defs if not contains(LV, d)]
                    where = (f"it is created by `{_plain(norm(outside[0]))}` outside `{_plain(norm(LV))}`" if outside else
                             f"the path {cfg.path_str(path)} re-uses the container of the previous iteration")
                    ctx.violation(rid, f0, LS,
                                  f"`{_plain(nm)}` collects the sources of one input variable inside `{_plain(norm(LV))}`, but {where} and is "
                                  f"not reset at the start of every iteration: whatever an earlier input variable left in it (a "
                                  f"multi-source variable leaves all its sources) is handed on as sources of the next input variable, "
                                  f"whose input term then also sums the other variable's connections", facts, label=label)
    ctx.require(n >= 1, f"{rid}: no per-input-variable source collection (`for … in inp['sources']` filling a local container) found in {IR}")


RULES.append(("C01-R12", r12_source_collector_is_fresh_per_input_variable, 1))


# ================================================================================================
# R13 the decision to drop a weight factor is an absolute comparison with the declared tolerance
# ================================================================================================

CLOSENESS = {"numpy.allclose": ("rtol", "atol", 2, 3, "1e-05"), "numpy.isclose": ("rtol", "atol", 2, 3, "1e-05"),
             "math.isclose": ("rel_tol", "abs_tol", None, None, "1e-09")}
ABS_CALLS = {"abs", "fabs", "absolute"}


def _tolerance_params(ctx):
    """{function: {parameter}}: parameters of functions in pyrates/ir/circuit.py that carry a declared small absolute
    tolerance — a default that is a float literal (or named module constant) in (0, 1e-3] — and the parameters of repository
    functions they are handed on to."""
    out: Dict[object, Set[str]] = {}
    work = []
    for f in ctx.repo.all_functions([IR]):
        a = f.node.args
        pos = a.posonlyargs + a.args
        pairs = list(zip(pos[len(pos) - len(a.defaults):], a.defaults)) + [(k, d) for k, d in zip(a.kwonlyargs, a.kw_defaults) if d is not None]
        for arg, d in pairs:
            if isinstance(d, ast.Name):
                d = module_constant(ctx, f.module, d.id) or d
            if isinstance(d, ast.Constant) and isinstance(d.value, float) and 0 < d.value <= 1e-3:
                out.setdefault(f, set()).add(arg.arg)
                work.append((f, arg.arg))
    while work:
        f, p_ = work.pop()
        for call, targets, how in ctx.cg.calls.get(f, ()):
            if how == "by-name":
                continue
            for g in targets:
                for q, x in _bind_args(g, call).items():
                    if isinstance(x, ast.Name) and x.id == p_ and q in g.params and q not in out.get(g, set()):
                        out.setdefault(g, set()).add(q)
                        work.append((g, q))
    return out


def r13_weight_factor_dropped_only_within_absolute_tolerance(ctx, rid):
    """The edge-equation generator leaves the weight factor out of the emitted term when the weights are 1 up to the declared
    tolerance (`weight_minimum`, 1e-8).  Necessary: that decision is an absolute comparison |w - 1| < tol for all weights.  A
    closeness helper with an implicit relative part (np.allclose / np.isclose default rtol=1e-05, math.isclose default
    rel_tol=1e-09) widens the tolerance by orders of magnitude: weights like 1 + 5e-7 silently lose their multiplication.
    Instances: every use of a declared tolerance parameter (found by its small float default, followed into the helpers it is
    handed to) and every closeness-helper call against 1 in the tests of those functions."""
    tol = _tolerance_params(ctx)
    ctx.require(tol, f"{rid}: no parameter with a small float default (declared tolerance) found in {IR}")
    n = 0
    for f, params in sorted(tol.items(), key=lambda kv: kv[0].qual):
        cfg = ctx.cfg(f)
        judged_calls = set()

        def closeness(call):
            return CLOSENESS.get(ctx.repo.external_name(f.module, call.func) or "")

        def judge_closeness(call, use):
            spec = closeness(call)
            rel_kw, abs_kw, rel_pos, abs_pos, dflt = spec
            kws = {k.arg: k.value for k in call.keywords}
            rel = kws.get(rel_kw) if rel_kw in kws else (call.args[rel_pos] if rel_pos is not None and len(call.args) > rel_pos else None)
            abs_ = kws.get(abs_kw) if abs_kw in kws else (call.args[abs_pos] if abs_pos is not None and len(call.args) > abs_pos else None)
            name = ast.unparse(call.func)
            if rel is None:
                return False, f"`{name}` adds a relative tolerance ({rel_kw} defaults to {dflt}) to the declared absolute one"
            if not (isinstance(rel, ast.Constant) and rel.value in (0, 0.0)):
                if isinstance(rel, ast.Name) and rel.id in params:
                    return False, f"`{name}` uses the declared absolute tolerance as relative tolerance `{rel_kw}`"
                raise AnalysisError(f"{rid}: {f.qual}: `{ast.unparse(call)}`: relative tolerance `{ast.unparse(rel)}` is not a literal")
            if not (isinstance(abs_, ast.Name) and abs_.id in params):
                return False, f"`{name}` does not compare with the declared tolerance (`{abs_kw}` is `{ast.unparse(abs_) if abs_ is not None else 'its default'}`)"
            return True, f"`{name}` with {rel_kw}=0 and {abs_kw}=the declared tolerance is the absolute comparison"
        sites = []
        # a small float default alone does not make a tolerance (step sizes …): the parameter must bound a comparison here
        def bounds_something(pn):
            for x in walk_shallow(f.node):
                if isinstance(x, ast.Name) and isinstance(x.ctx, ast.Load) and x.id == pn:
                    if isinstance(parent(x), ast.Compare):
                        return True
                    c = next((a for a in _anc(x) if isinstance(a, ast.Call) and (x in a.args or any(k.value is x for k in a.keywords))), None)
                    if c is not None and closeness(c) is not None:
                        return True
            return False
        params = {pn for pn in params if bounds_something(pn)}
        if not params:
            continue
        for use in [x for x in walk_shallow(f.node) if isinstance(x, ast.Name) and isinstance(x.ctx, ast.Load) and x.id in params]:
            par = parent(use)
            # handed on to a repository function (followed there) / keyword of a closeness helper
            call = next((a for a in _anc(use) if isinstance(a, ast.Call) and (use in a.args or any(k.value is use for k in a.keywords))), None)
            if call is not None and closeness(call) is not None:
                if id(call) not in judged_calls:
                    judged_calls.add(id(call))
                    sites.append((call, judge_closeness(call, use)))
                continue
            if call is not None:
                targets, how = ctx.cg.resolve_call(f, call)
                if targets and how != "by-name":
                    continue
                if isinstance(par, ast.keyword) and par.arg is None:
                    continue
                raise AnalysisError(f"{rid}: {f.qual}: the tolerance `{use.id}` is handed to `{ast.unparse(call.func)}` (unrecognised use)")
            if isinstance(par, ast.Compare) and len(par.ops) == 1 and isinstance(par.ops[0], (ast.Lt, ast.LtE, ast.Gt, ast.GtE)):
                other = par.comparators[0] if par.left is use else par.left
                smaller_is_other = (par.left is not use) == isinstance(par.ops[0], (ast.Lt, ast.LtE))
                has_abs = any(isinstance(c, ast.Call) and call_name(c) in ABS_CALLS for c in ast.walk(other))
                if has_abs and smaller_is_other:
                    sites.append((par, (True, f"`{_plain(ast.unparse(par))}` bounds an absolute difference by the declared tolerance")))
                    continue
                raise AnalysisError(f"{rid}: {f.qual}: `{ast.unparse(par)}` compares with the tolerance in an unrecognised form")
            if isinstance(par, ast.keyword) or isinstance(par, (ast.Dict,)):
                continue        # stored / forwarded as data
            raise AnalysisError(f"{rid}: {f.qual}: unrecognised use of the tolerance `{use.id}` in `{norm(stmt_of(cfg, use))}`")
        # closeness helpers against 1 that do not even mention the declared tolerance
        for c in [x for x in walk_shallow(f.node) if isinstance(x, ast.Call) and closeness(x) is not None and id(x) not in judged_calls]:
            if any(isinstance(a, ast.Constant) and a.value in (1, 1.0) for a in c.args) and \
                    any(isinstance(a, (ast.If, ast.IfExp, ast.While)) and contains(a.test, c) for a in _anc(c)):
                judged_calls.add(id(c))
                sites.append((c, judge_closeness(c, None)))
        for node, (ok_, why) in sites:
            st = stmt_of(cfg, node)
            n += 1
            label = f"unit-weight test `{_plain(norm(st))}`"
            if ok_:
                ctx.ok(rid, f, st, f"{why}", {"test": _plain(ast.unparse(node))}, label=label)
            else:
                ctx.violation(rid, f, st, f"`{_plain(ast.unparse(node))}` decides whether a weight counts as 1 (the weight factor is left out of "
                                          f"the emitted term), but {why}: weights that differ from 1 by far more than the declared "
                                          f"tolerance are treated as 1 and their multiplication vanishes from the generated equation",
                              {"test": _plain(ast.unparse(node))}, label=label)
    ctx.require(n >= 1, f"{rid}: no test against a declared tolerance found in {IR}")


RULES.append(("C01-R13", r13_weight_factor_dropped_only_within_absolute_tolerance, 2))


# ================================================================================================
# R14 an index list is recognised as a run of consecutive positions element by element, not by its end points
# ================================================================================================

ORDERED_UNIQUE_CALLS = {"unique", "arange", "range"}
_R14_CONTROL_BAD = '''
def control(idx):
    first = int(idx[0])
    return int(idx[-1]) - first == len(idx) - 1
'''
_R14_CONTROL_GOOD = '''
def control(idx):
    return all(int(b) - int(a) == 1 for a, b in zip(idx[:-1], idx[1:]))
'''


def _span_test(rd, cmp: ast.AST) -> Optional[str]:
    """X when `cmp` is an (in)equality that is equivalent to X[-1] - X[0] == len(X) - 1 (any arrangement of the terms, int()
    wrappers, single-definition aliases of the end points): the list is judged by its end points and its length only."""
    import sympy as sp
    if not (isinstance(cmp, ast.Compare) and len(cmp.ops) == 1 and isinstance(cmp.ops[0], (ast.Eq, ast.NotEq))):
        return None
    F, L, N = sp.Symbol("F"), sp.Symbol("L"), sp.Symbol("N")
    lists: Set[str] = set()

    def conv(e, depth=0):
        while isinstance(e, ast.Call) and isinstance(e.func, ast.Name) and e.func.id in ("int", "float") and len(e.args) == 1:
            e = e.args[0]
        if isinstance(e, ast.Constant) and isinstance(e.value, int) and not isinstance(e.value, bool):
            return sp.Integer(e.value)
        if isinstance(e, ast.Subscript) and isinstance(e.value, ast.Name):
            sl = e.slice
            if isinstance(sl, ast.Constant) and sl.value == 0:
                lists.add(e.value.id)
                return F
            if isinstance(sl, ast.UnaryOp) and isinstance(sl.op, ast.USub) and isinstance(sl.operand, ast.Constant) and sl.operand.value == 1:
                lists.add(e.value.id)
                return L
            return None
        if isinstance(e, ast.Call) and call_name(e) == "len" and len(e.args) == 1 and isinstance(e.args[0], ast.Name):
            lists.add(e.args[0].id)
            return N
        if isinstance(e, ast.Attribute) and e.attr == "size" and isinstance(e.value, ast.Name):
            lists.add(e.value.id)
            return N
        if isinstance(e, ast.Name) and depth < 3 and rd is not None:
            defs = rd.defs_reaching(e)
            v = assigned_value(defs[0], e.id) if len(defs) == 1 and not isinstance(defs[0], ast.arguments) else None
            return conv(v, depth + 1) if v is not None else None
        if isinstance(e, ast.BinOp) and isinstance(e.op, (ast.Add, ast.Sub)):
            a, b = conv(e.left, depth), conv(e.right, depth)
            if a is None or b is None:
                return None
            return a + b if isinstance(e.op, ast.Add) else a - b
        if isinstance(e, ast.UnaryOp) and isinstance(e.op, ast.USub):
            a = conv(e.operand, depth)
            return -a if a is not None else None
        return None
    l, r = conv(cmp.left), conv(cmp.comparators[0])
    if l is None or r is None or len(lists) != 1:
        return None
    d = sp.expand(l - r)
    span = L - F - N + 1
    if sp.expand(d - span) == 0 or sp.expand(d + span) == 0:
        return next(iter(lists))
    return None


def _elementwise_run_test(e: ast.AST, X: str) -> bool:
    """Does the boolean expression contain a test of list X that looks at every element (adjacent differences, comparison with a
    range, sortedness + distinctness)?"""
    for n in ast.walk(e):
        if isinstance(n, ast.Call):
            nm = call_name(n)
            if nm in ("diff", "array_equal", "ediff1d") and X in load_ids(n):
                return True
            if nm in ("all", "any") and n.args and isinstance(n.args[0], (ast.GeneratorExp, ast.ListComp)) \
                    and any(X in load_ids(g.iter) for g in n.args[0].generators):
                return True
        if isinstance(n, ast.Compare) and len(n.ops) == 1 and isinstance(n.ops[0], (ast.Eq, ast.NotEq)):
            sides = [n.left, n.comparators[0]]
            if any(X in load_ids(s) and not isinstance(s, ast.Subscript) and not (isinstance(s, ast.Call) and call_name(s) == "len")
                   for s in sides) and any(isinstance(c, ast.Call) and call_name(c) in ("range", "arange") for s in sides for c in ast.walk(s)):
                return True
    return False


def r14_index_run_is_decided_element_by_element(ctx, rid):
    """When the positions an edge reads or writes form a run a, a+1, …, b the generator may address them as a slice / the whole
    variable.  The position lists come in edge order: they can be permuted and can contain a position twice.  Necessary: a list
    is taken for a run only under a test that looks at every element (all adjacent differences 1, equality with range(a, b)).  A
    test of the form X[-1] - X[0] == len(X) - 1 (end points and length) is sufficient only for lists that are sorted and
    duplicate-free by construction (np.unique / range); applied to any other list it lets `weight * r[source_idx]` become a
    slice of the wrong elements."""
    # controls: the matcher sees the end-point test and does not see the element-wise one
    def control(src):
        tree = ast.parse(src)
        set_parents(tree)
        fn = tree.body[0]
        rd = ReachingDefs(CFG(fn))
        return [_span_test(rd, c) for c in ast.walk(fn) if isinstance(c, ast.Compare)]
    if control(_R14_CONTROL_BAD) != ["idx"] or any(control(_R14_CONTROL_GOOD)):
        raise AnalysisError(f"{rid}: positive control failed — the end-point/length test is no longer recognised")
    funcs = ctx.repo.all_functions([IR])

    def ordered_unique(f, a: ast.AST, depth=0):
        """(True, None) when the list expression is sorted and duplicate-free by construction at every origin; else
        (False, text of an origin that is not)."""
        if isinstance(a, ast.Call) and call_name(a) in ORDERED_UNIQUE_CALLS:
            return True, None
        if isinstance(a, ast.Call) and call_name(a) in ("list", "tuple", "asarray", "array", "sorted") and a.args:
            if call_name(a) == "sorted" and isinstance(a.args[0], ast.Call) and call_name(a.args[0]) in ("set", "frozenset"):
                return True, None
            return ordered_unique(f, a.args[0], depth)
        if not isinstance(a, ast.Name):
            return False, f"`{ast.unparse(a)}` in {f.qualname}"
        defs = ctx.rd(f).defs_reaching(a)
        if not defs:
            return False, f"`{a.id}` in {f.qualname}"
        for d in defs:
            if isinstance(d, ast.arguments):
                sites = [(c, call) for c, call in ctx.cg.call_sites_of(f) if c is not f]
                if not sites or depth >= 3:
                    return False, f"parameter `{a.id}` of {f.qualname}"
                for c, call in sites:
                    x = _bind_args(f, call).get(a.id)
                    if x is None:
                        return False, f"parameter `{a.id}` of {f.qualname} (not bound at `{ast.unparse(call)[:60]}`)"
                    ok_, why = ordered_unique(c, x, depth + 1)
                    if not ok_:
                        return False, why
                continue
            v = assigned_value(d, a.id)
            if v is None:
                return False, f"`{a.id}` (bound by `{norm(d)[:70]}`) in {f.qualname}"
            ok_, why = ordered_unique(f, v, depth)
            if not ok_:
                return False, why
        return True, None
    n_tests = n_span = 0
    for f in funcs:
        rd = ctx.rd(f)
        for cmp in [c for c in walk_shallow(f.node) if isinstance(c, ast.Compare)]:
            n_tests += 1
            X = _span_test(rd, cmp)
            if X is None:
                continue
            n_span += 1
            st = stmt_of(ctx.cfg(f), cmp)
            # the whole boolean expression the test is part of, and the tests that dominate it
            top = cmp
            while isinstance(parent(top), (ast.BoolOp, ast.UnaryOp)):
                top = parent(top)
            ctxs = [top] + [d.test for d in ctx.cfg(f).dominators(st) if isinstance(d, (ast.If, ast.While)) and d is not st]
            name_node = next(n for n in ast.walk(cmp) if isinstance(n, ast.Name) and n.id == X)
            label = f"run test `{_plain(ast.unparse(cmp))}`"
            facts = {"test": _plain(ast.unparse(cmp)), "list": X}
            if any(_elementwise_run_test(e, X) for e in ctxs if e is not cmp):
                ctx.ok(rid, f, st, f"the end-point test of `{X}` is combined with a test of every element", facts, label=label)
                continue
            ok_, why = ordered_unique(f, name_node)
            if ok_:
                ctx.ok(rid, f, st, f"`{X}` is sorted and duplicate-free by construction at every origin (np.unique / range): the end "
                                   f"points and the length determine it", facts, label=label)
            else:
                facts["origin"] = why
                ctx.violation(rid, f, st,
                              f"`{_plain(ast.unparse(cmp))}` takes `{X}` for a run of consecutive positions because its end points are "
                              f"len({X}) - 1 apart; that also holds for a permuted list and for one with a repeated and a missing "
                              f"position, and `{X}` is not sorted and duplicate-free by construction (origin: {why}): the positions are "
                              f"then addressed as a slice / the whole variable and the edge reads or writes other elements than the "
                              f"connections name", facts, label=label)
    ctx.ok(rid, None, None, f"controls: the end-point/length test is matched, the element-wise test is not; {n_tests} comparisons in "
                            f"{IR} scanned, {n_span} end-point run tests", construct="rules/c01.py::_R14_CONTROL", loc="rules/c01.py",
           nontrivial=False)
    ctx.require(n_tests >= 100, f"{rid}: only {n_tests} comparisons scanned in {IR}")


RULES.append(("C01-R14", r14_index_run_is_decided_element_by_element, 1))
