"""C10 — delayed terms read the true past of the trajectory (DESIGN §4 C10)."""
from __future__ import annotations

import ast
import re

import sympy as sp

from engine import AnalysisError, symx
from engine.srcmodel import walk_shallow, norm
from engine.util import call_name, fstring_template, contains, is_attr_of, normalise
from engine.dataflow import assigned_value
from . import solvers as S

PROPERTY = "C10"
CG = "pyrates/backend/computegraph.py"
EXPLANATION = (
    "Convergence to the DDE solution is not decidable statically.  Decided: R1 every python-target implementation of add_var_hist "
    "emits `lhs = hist(t*dt - d)[idx]` on the fixed-step path (dt given and not adaptive) and `hist(t - d)[idx]` otherwise, with idx the "
    "processed state index and d the processed delay (template algebra via sympy); Julia/Matlab overrides use the target language's "
    "DDE interface and are listed, not armed.  R2 the history index of a variable is its own state index: in ComputeGraph.to_func the "
    "state_idx handed to add_var_hist derives from _state_var_indices[var] of the same var that keys _state_var_hist, and the "
    "(delay, name) pairs come from that var's own table; _get_var_hist keys both levels by the (var, delay) it was asked for.  R3 every "
    "fixed-step solver override either feeds the DDEHistory after the state update under an isinstance(DDEHistory) test or raises when "
    "handed one.  R4 the time handed to the history is (i+1)*dt (time units, post-update) and the state is the updated state; the scipy "
    "DDE path forwards solout's (t, y) unchanged and queries func with the same hist object, and the history is fed by a per-step callback (not only at output samples).  R2 also: past(x, d) requests the history of (argument 0, argument 1), and a (start, stop) state range is narrowed to `start` only under a test that implies stop - start <= 1.  NOT decided: convergence, DDEHistory "
    "itself (C19), the Julia/Matlab DDE bridges."
)
RULE_TEXT = "instances = add_var_hist overrides, solver overrides, scipy DDE wrappers; non-trivial = template algebra, def-use or ordering argument"
ASSUMPTIONS = ["JAX fixed-step solvers (lax.scan) with a DDEHistory fail loudly inside DDEHistory.__call__ (float(tracer) raises); "
               "confirmed by running during triage and frozen as the only exception of R3."]

# (class, solver) pairs allowed to neither update nor refuse, with the reason (confirmed by running)
R3_EXCEPTIONS = {
    ("JaxBackend", "_solve_euler"): "lax.scan traces the step; DDEHistory.__call__ does float(t) on a tracer -> ConcretizationTypeError (loud)",
    ("JaxBackend", "_solve_heun"): "same as JaxBackend._solve_euler",
}


def _hist_template(t: str):
    m = re.search(r"hist\((.*?)\)\[(.*?)\]\s*$", t.strip())
    if not m:
        return None
    lhs = t.split("=")[0].strip()
    return lhs, m.group(1), m.group(2)


def _arg_to_sympy(text: str):
    # ⟨name⟩ -> H_name
    holes = re.findall(r"⟨(.*?)⟩", text)
    s = text
    for h in holes:
        s = s.replace(f"⟨{h}⟩", "H_" + re.sub(r"\W", "_", h))
    return symx.to_sympy(ast.parse(s, mode="eval").body)


def _mode_formula(test: ast.AST):
    """Boolean formula over A = (dt is None), B = dt_adapt for a branch test of add_var_hist; None if it mentions anything else."""
    from sympy import Symbol, Not, And, Or
    from sympy import true as _T, false as _F
    A, B = Symbol("dt_is_None"), Symbol("dt_adapt")
    if isinstance(test, ast.Constant) and isinstance(test.value, bool):
        return _T if test.value else _F
    if isinstance(test, ast.Compare) and len(test.ops) == 1 and isinstance(test.left, ast.Constant) and test.left.value is None \
            and isinstance(test.comparators[0], ast.Constant) and test.comparators[0].value is None:
        return _T if isinstance(test.ops[0], (ast.Is, ast.Eq)) else _F
    if isinstance(test, ast.Name) and test.id == "dt_adapt":
        return B
    if isinstance(test, ast.Name) and test.id == "dt":
        return None          # truthiness of dt (0.0 is falsy) is not the same as `dt is not None`
    if isinstance(test, ast.UnaryOp) and isinstance(test.op, ast.Not):
        x = _mode_formula(test.operand)
        return None if x is None else Not(x)
    if isinstance(test, ast.BoolOp):
        xs = [_mode_formula(v) for v in test.values]
        if any(x is None for x in xs):
            return None
        return And(*xs) if isinstance(test.op, ast.And) else Or(*xs)
    if isinstance(test, ast.Compare) and len(test.ops) == 1 and isinstance(test.left, ast.Name) and test.left.id == "dt" \
            and isinstance(test.comparators[0], ast.Constant) and test.comparators[0].value is None:
        if isinstance(test.ops[0], (ast.Is, ast.Eq)):
            return A
        if isinstance(test.ops[0], (ast.IsNot, ast.NotEq)):
            return Not(A)
    return None


def _emissions(ctx, rid, f):
    """Path-sensitive evaluation of add_var_hist: for every non-raising path the branch decisions (as a formula over the step mode;
    tests about anything else - e.g. whether a look-up was already emitted - become free boolean symbols, so both arms are explored)
    and the emitted code-line templates with local string variables spliced in.  `x = a if c else b` forks the path like an `if`."""
    from sympy import true, And, Not, Symbol
    from engine.util import enumerate_paths
    cfg = ctx.cfg(f)
    out = []
    opaque = {}

    def formula(test, env=None):
        if env:
            # a helper's parameter that was bound on this path to `dt`, `dt_adapt`, None or a literal stands for that value
            class _Sub(ast.NodeTransformer):
                def visit_Name(self, n):
                    v, k = n, 0
                    while isinstance(v, ast.Name) and v.id in env and k < 5:
                        v, k = env[v.id], k + 1
                    return v if isinstance(v, (ast.Name, ast.Constant)) else n
            from engine.inline import clone
            test = _Sub().visit(clone(test))
        fm = _mode_formula(test)
        if fm is None:
            if any(isinstance(n, ast.Name) and n.id in ("dt", "dt_adapt") for n in ast.walk(test)):
                raise AnalysisError(f"{rid}: {f.qual}: unrecognised step-mode test `{ast.unparse(test)}`")
            key = ast.unparse(test)
            neg = key[4:] if key.startswith("not ") else None
            if neg is not None and neg in opaque:
                return Not(opaque[neg])
            fm = opaque.setdefault(key, Symbol(f"opaque_{len(opaque)}"))
        return fm
    for path in enumerate_paths(cfg):
        if path[-1] is not cfg.EXIT:
            continue
        states = [({}, true, [], [])]            # env, cond, lines, stores

        def tmpl(e, env):
            if isinstance(e, ast.Constant) and isinstance(e.value, str):
                return e.value
            if isinstance(e, ast.Name) and e.id in env:
                t = tmpl(env[e.id], env)
                return t if t is not None else None
            if isinstance(e, ast.JoinedStr):
                parts = []
                for v in e.values:
                    if isinstance(v, ast.Constant):
                        parts.append(str(v.value))
                    else:
                        inner = tmpl(v.value, env) if isinstance(v.value, ast.Name) and v.value.id in env else None
                        hv, k_ = v.value, 0
                        while inner is None and isinstance(hv, ast.Name) and hv.id in env and isinstance(env[hv.id], ast.Name) and k_ < 5:
                            hv, k_ = env[hv.id], k_ + 1          # a helper's parameter bound to a plain name stands for that name
                        parts.append(inner if inner is not None else "⟨" + ast.unparse(hv) + "⟩")
                return "".join(parts)
            if isinstance(e, ast.BinOp) and isinstance(e.op, ast.Add):
                l, r = tmpl(e.left, env), tmpl(e.right, env)
                return l + r if l is not None and r is not None else None
            return None
        for k, st in enumerate(path):
            nxt = []
            for env, cond, lines, stores in states:
                if isinstance(st, ast.If) and k + 1 < len(path):
                    labels = cfg.g[st][path[k + 1]]["labels"]
                    fm = formula(st.test, env)
                    nxt.append((env, And(cond, fm if "true" in labels else Not(fm)), lines, stores))
                elif isinstance(st, ast.Assign) and len(st.targets) == 1 and isinstance(st.targets[0], ast.Name):
                    if isinstance(st.value, ast.IfExp):
                        fm = formula(st.value.test, env)
                        for arm, c2 in ((st.value.body, fm), (st.value.orelse, Not(fm))):
                            e2 = dict(env)
                            e2[st.targets[0].id] = arm
                            nxt.append((e2, And(cond, c2), lines, stores))
                    else:
                        e2 = dict(env)
                        e2[st.targets[0].id] = st.value
                        nxt.append((e2, cond, lines, stores))
                elif isinstance(st, ast.Assign) and len(st.targets) == 1 and isinstance(st.targets[0], ast.Subscript):
                    nxt.append((env, cond, lines, stores + [(st, dict(env))]))
                elif isinstance(st, ast.stmt) and not isinstance(st, (ast.For, ast.While, ast.With, ast.Try)):
                    new_lines = list(lines)
                    for c in ast.walk(st):
                        if isinstance(c, ast.Call) and call_name(c) == "add_code_line" and c.args:
                            t = tmpl(c.args[0], env)
                            if t is None:
                                raise AnalysisError(f"{rid}: {f.qual}: emitted line is not a string template: {ast.unparse(c.args[0])[:80]}")
                            new_lines.append((st, t, dict(env)))
                    nxt.append((env, cond, new_lines, stores))
                else:
                    nxt.append((env, cond, lines, stores))
            states = nxt
        for env, cond, lines, stores in states:
            out.append((cond, lines, cfg.path_str(path), stores))
    return out


_KEY_REPORTED = None


def _shared_lookup(ctx, rid, f, cls, lines, stores):
    """Shared history look-ups: `Y = hist(ARG)` emitted once and `lhs = <Y or table[K]>[IDX]` per delayed term, the emitted name kept in
    a table on the backend under a key K.  Returns None (not this form), "hit" (a path that emits only the indexed read of a stored
    look-up) or a synthetic (stmt, "lhs = hist(ARG)[IDX]", env) line for the path that emits both.  The key obligation - two terms
    share a look-up only if their emitted delay text is the same - is reported once per function."""
    def split_read(t):
        m = re.match(r"^\s*(\S+)\s*=\s*(.*?)\[([^\[\]]*|⟨[^⟩]*⟩)\]\s*$", t)
        if not m or "hist(" in m.group(2):
            return None
        return m.groups()

    def split_lookup(t):
        m = re.match(r"^\s*(\S+)\s*=\s*hist\((.*)\)\s*$", t)
        return m.groups() if m else None

    def table_read(src):
        """the read source as an expression when it is one hole ⟨self.table[K]⟩"""
        m = re.match(r"^⟨([^⟩]*)⟩$", src.strip())
        if not m:
            return None
        try:
            e = ast.parse(m.group(1), mode="eval").body
        except SyntaxError:
            return None
        return e if isinstance(e, ast.Subscript) and isinstance(e.value, ast.Attribute) else None

    def text_of(e, env):
        if isinstance(e, ast.Name) and e.id in env:
            return text_of(env[e.id], env)
        if isinstance(e, ast.Constant) and isinstance(e.value, str):
            return e.value
        if isinstance(e, ast.JoinedStr):
            return "".join(str(v.value) if isinstance(v, ast.Constant) else "⟨" + ast.unparse(v.value) + "⟩" for v in e.values)
        return None
    if len(lines) == 1 and _hist_template(lines[0][1]) is None and split_read(lines[0][1]):
        _lhs, src, _idx = split_read(lines[0][1])
        e = table_read(src)
        if e is not None:
            _key_obligation(ctx, rid, f, cls, e, lines[0][2])
            return "hit"
        return None
    if len(lines) == 2 and split_lookup(lines[0][1]) and _hist_template(lines[0][1]) is None and split_read(lines[1][1]):
        ytext, arg = split_lookup(lines[0][1])
        lhs, src, idx = split_read(lines[1][1])
        env = lines[1][2]
        e = table_read(src)
        if src.strip() == ytext.strip():
            pass
        elif e is not None:
            # the table entry read here must be the one this path stored: table[K] = <the emitted look-up's name> with the same K
            ok = any(isinstance(st.targets[0], ast.Subscript) and ast.unparse(st.targets[0].value) == ast.unparse(e.value)
                     and ast.unparse(st.targets[0].slice) == ast.unparse(e.slice) and text_of(st.value, env_) == ytext.strip()
                     for st, env_ in stores)
            if not ok:
                raise AnalysisError(f"{rid}: {f.qual}: the look-up read `{src}` is not the one stored on this path (unrecognised form)")
            _key_obligation(ctx, rid, f, cls, e, env)
        else:
            return None
        return (lines[0][0], f"{lhs} = hist({arg})[{idx}]", env)
    return None


def _key_obligation(ctx, rid, f, cls, table_read: ast.Subscript, env):
    global _KEY_REPORTED
    if _KEY_REPORTED == (id(ctx), f.qual):
        return
    _KEY_REPORTED = (id(ctx), f.qual)
    K = table_read.slice
    for _ in range(4):
        if isinstance(K, ast.Name) and K.id in env:
            K = env[K.id]
    P = "delay"
    cands = []          # (value expression, parameter name standing for the delay)
    if isinstance(K, ast.Call) and isinstance(K.func, ast.Attribute) and len(K.args) == 1 and isinstance(K.args[0], ast.Name) and K.args[0].id == P \
            and call_name(K) not in ("_process_delay", "str", "repr", "id", "hash", "float"):
        m = ctx.repo.lookup_method(cls, call_name(K))
        if m is None:
            raise AnalysisError(f"{rid}: {f.qual}: cannot resolve the key helper `{ast.unparse(K)}`")
        pn = [p for p in m.params if p not in ("self", "cls")]
        if len(pn) != 1:
            raise AnalysisError(f"{rid}: {m.qual}: key helper has an unrecognised signature")
        rets = [r.value for r in walk_shallow(m.node) if isinstance(r, ast.Return) and r.value is not None]
        for r in rets:
            for arm in ([r.body, r.orelse] if isinstance(r, ast.IfExp) else [r]):
                cands.append((arm, pn[0]))
    else:
        for arm in ([K.body, K.orelse] if isinstance(K, ast.IfExp) else [K]):
            cands.append((arm, P))
    if not cands:
        raise AnalysisError(f"{rid}: {f.qual}: the key of the shared look-up table is not recognised: {ast.unparse(table_read.slice)}")

    def by_value(v, p):
        return any(isinstance(n, ast.Attribute) and n.attr in ("value", "values") and isinstance(n.value, ast.Name) and n.value.id == p
                   for n in ast.walk(v))

    def identity_like(v, p):
        if isinstance(v, ast.Tuple):
            return any(identity_like(x, p) for x in v.elts) and not any(by_value(x, p) for x in v.elts)
        if isinstance(v, ast.Name) and v.id in (p, "d"):
            return True
        if isinstance(v, ast.Attribute) and v.attr in ("name", "label") and isinstance(v.value, ast.Name) and v.value.id == p:
            return True
        if isinstance(v, ast.Call) and call_name(v) in ("id", "str", "repr", "hash", "_process_delay") and v.args and isinstance(v.args[0], ast.Name) \
                and v.args[0].id == p:
            return True
        return False

    def literal_like(v, p):
        return isinstance(v, ast.Call) and call_name(v) in ("float", "str", "repr") and v.args and isinstance(v.args[0], ast.Name) and v.args[0].id == p
    bad = [v for v, p in cands if by_value(v, p)]
    if bad:
        ctx.violation(rid, f, f.node, f"history look-ups are shared under the key `{ast.unparse(bad[0])[:60]}`, the delay's compile-time VALUE: two delay "
                                      f"parameters with equal defaults get one look-up `hist(t - <first>)`, although the generated function takes both as "
                                      f"arguments - a call with one of them changed reads the wrong point of the past",
                      label="shared history look-ups are keyed by the delay's identity")
    elif all(identity_like(v, p) or literal_like(v, p) for v, p in cands) and any(identity_like(v, p) for v, p in cands):
        ctx.ok(rid, f, f.node, "shared history look-ups are keyed by the delay's identity (name / object / emitted text)",
               {"key": [ast.unparse(v) for v, _ in cands]}, label="shared history look-ups are keyed by the delay's identity")
    else:
        raise AnalysisError(f"{rid}: {f.qual}: cannot decide whether the key `{ast.unparse(table_read.slice)}` of the shared look-up table "
                            f"identifies the delay (unrecognised form: {[ast.unparse(v) for v, _ in cands]})")


def r1_add_var_hist(ctx, rid):
    from sympy import Symbol, And, Or, Not
    from sympy.logic.inference import satisfiable
    A, B = Symbol("dt_is_None"), Symbol("dt_adapt")
    MODES = {"fixed": And(Not(A), Not(B)), "adaptive": Or(A, B)}
    base = ctx.repo.get_class(S.BASE_REL, "BaseBackend")
    n = 0
    for cls in ctx.repo.subclasses(base):
        f = cls.methods.get("add_var_hist")
        if f is None:
            continue
        if cls.name in ("JuliaBackend", "MatlabBackend"):
            ctx.info(rid, f, f.node, f"{cls.name} overrides add_var_hist for the target language's own DDE interface; listed, not armed")
            continue
        n += 1
        for need in ("lhs", "delay", "state_idx", "dt", "dt_adapt"):
            ctx.require(need in f.params, f"{rid}: {f.qual}: parameter `{need}` vanished")
        # the line may be assembled by helpers of the backend (a shared time-expression helper, a "history read" helper): splice them in
        from engine.inline import inlined
        def self_call(c):
            return isinstance(c, ast.Call) and isinstance(c.func, ast.Attribute) and isinstance(c.func.value, ast.Name) \
                and c.func.value.id in (f.self_name, "cls")
        all_called = {call_name(c) for c in walk_shallow(f.node) if self_call(c)} - {None}
        hole_names, text_helpers = set(), set()
        for c in walk_shallow(f.node):
            if isinstance(c, ast.Call) and call_name(c) == "add_code_line" and c.args:
                for fv in ast.walk(c.args[0]):
                    if isinstance(fv, ast.FormattedValue):
                        if isinstance(fv.value, ast.Name):
                            hole_names.add(fv.value.id)
                        elif self_call(fv.value):
                            text_helpers.add(call_name(fv.value))
        for st_ in walk_shallow(f.node):
            if isinstance(st_, ast.Assign) and len(st_.targets) == 1 and isinstance(st_.targets[0], ast.Name) and st_.targets[0].id in hole_names \
                    and self_call(st_.value):
                text_helpers.add(call_name(st_.value))
        text_helpers -= {"_process_delay", "_process_idx"}
        f_orig = f
        if any(self_call(fv.value) for c in walk_shallow(f.node) if isinstance(c, ast.Call) and call_name(c) == "add_code_line" and c.args
               for fv in ast.walk(c.args[0]) if isinstance(fv, ast.FormattedValue)):
            # `add_code_line(f"{lhs} = {self._helper(..)}")`: give the helper's result a name first, so that the statement-level
            # splicer can take the helper apart
            from engine.inline import clone, _mk, InlinedFunction
            from engine.srcmodel import set_parents
            node_ = clone(f.node)
            k_tmp = [0]

            class _Hoist(ast.NodeTransformer):
                def visit_Expr(self, st_):
                    pre = []
                    for c in ast.walk(st_):
                        if isinstance(c, ast.Call) and call_name(c) == "add_code_line" and c.args:
                            for fv in ast.walk(c.args[0]):
                                if isinstance(fv, ast.FormattedValue) and self_call(fv.value):
                                    k_tmp[0] += 1
                                    nm_ = f"_emitted_text_{k_tmp[0]}"
                                    pre.append(ast.copy_location(ast.Assign(targets=[ast.Name(id=nm_, ctx=ast.Store())], value=fv.value), st_))
                                    fv.value = ast.copy_location(ast.Name(id=nm_, ctx=ast.Load()), fv)
                    return pre + [st_] if pre else st_
            node_ = _Hoist().visit(node_)
            ast.fix_missing_locations(node_)
            set_parents(node_)
            node_._parent = getattr(f.node, "_parent", None)
            fh = _mk(InlinedFunction, f, node_)
            fh.origin = f
            f = fh
        f = inlined(ctx, f, keep=("_process_delay", "_process_idx") + tuple(sorted(all_called - text_helpers - {"_process_delay", "_process_idx"})) + tuple("+" + n_ for n_ in sorted(text_helpers) if not n_.startswith("_")))
        ems = _emissions(ctx, rid, f)
        reported = set()
        for mode, mform in MODES.items():
            feas = [(lines, ps, stores) for cond, lines, ps, stores in ems if satisfiable(And(cond, mform))]
            if not feas:
                raise AnalysisError(f"{rid}: {f.qual}: no path for the {mode} step mode")
            for lines, ps, stores in feas:
                shared = _shared_lookup(ctx, rid, f, cls, lines, stores)
                if shared == "hit":
                    continue            # a path that only indexes a look-up emitted by an earlier call: decided by the key obligation
                if shared is None and len(lines) != 1:
                    ctx.violation(rid, f, f.node, f"a path taken in {mode} step mode emits {len(lines)} history look-ups instead of one",
                                  {"path": ps}, label=f"{mode} path emits one look-up")
                    continue
                if shared is not None:
                    st, tpl, env = shared
                else:
                    st, tpl, env = lines[0]
                parsed = _hist_template(tpl)
                if parsed is None:
                    raise AnalysisError(f"{rid}: {f.qual}: emitted line `{tpl}` is not of the form lhs = hist(arg)[idx]")
                lhs, arg, idx = parsed
                try:
                    e = _arg_to_sympy(arg)
                except Exception as ex:
                    raise AnalysisError(f"{rid}: {f.qual}: cannot parse the time argument `{arg}`: {ex}")
                tt = sp.Symbol("t")
                holes = re.findall(r"⟨(.*?)⟩", arg)
                delay_holes = [h for h in holes if h != "dt"]
                facts = {"template": tpl, "mode": mode, "argument": str(e), "path": ps}
                if len(delay_holes) != 1:
                    good, dh = False, (delay_holes[-1] if delay_holes else None)
                else:
                    dh = delay_holes[0]
                    hsym = sp.Symbol("H_" + re.sub(r"\W", "_", dh))
                    ref = tt * sp.Symbol("H_dt") - hsym if mode == "fixed" else tt - hsym
                    good = sp.simplify(e - ref) == 0

                def src(hole):
                    v = env.get(hole) if hole else None
                    for _ in range(4):
                        if isinstance(v, ast.Name) and v.id in env:
                            v = env[v.id]
                    return v
                dsrc, isrc = src(dh), src(idx.strip("⟨⟩"))
                d_ok = isinstance(dsrc, ast.Call) and call_name(dsrc) == "_process_delay" and dsrc.args and ast.unparse(dsrc.args[0]) == "delay"
                i_ok = isinstance(isrc, ast.Call) and call_name(isrc) == "_process_idx" and isrc.args and ast.unparse(isrc.args[0]) == "state_idx"
                lhs_ok = lhs == "⟨lhs⟩"
                key = (mode, id(st), tpl)
                if key in reported:
                    continue
                reported.add(key)
                if good and d_ok and i_ok and lhs_ok:
                    ctx.ok(rid, f, st, f"{mode} path reads hist({'t*dt' if mode == 'fixed' else 't'} - delay)[state index]", facts,
                           label=f"{mode} step mode: history look-up")
                else:
                    why = []
                    if not good:
                        why.append(f"time argument is `{arg}`, expected {'t*dt - d' if mode == 'fixed' else 't - d'} (t is the step counter on the fixed-step path)")
                    if not d_ok:
                        why.append("the delay is not the processed `delay` parameter")
                    if not i_ok:
                        why.append("the subscript is not the processed `state_idx`")
                    if not lhs_ok:
                        why.append("the assigned name is not `lhs`")
                    ctx.violation(rid, f, st, f"{mode} history lookup is wrong: " + "; ".join(why), facts, label=f"{mode} step mode: history look-up")
    if n < 1:
        raise AnalysisError(f"{rid}: no python-target add_var_hist found")


def r2_history_index_is_state_index(ctx, rid):
    from engine.inline import inlined
    f0 = ctx.repo.get_func(CG, "ComputeGraph.to_func")
    f = inlined(ctx, f0)             # the wiring of the history variables may live in a private helper of to_func
    selfn = f0.self_name
    calls = [c for c in walk_shallow(f.node) if isinstance(c, ast.Call) and call_name(c) == "add_var_hist"]
    if len(calls) != 1:
        raise AnalysisError(f"{rid}: expected one add_var_hist call in to_func, found {len(calls)}")
    call = calls[0]
    kw = {k.arg: k.value for k in call.keywords}
    for need in ("lhs", "delay", "state_idx"):
        if need not in kw:
            raise AnalysisError(f"{rid}: add_var_hist call without keyword `{need}`")
    # enclosing loops
    loops = [a for a in _anc(call) if isinstance(a, ast.For)]
    outer = [l for l in loops if any(is_attr_of(n_, selfn, "_state_var_hist") for n_ in ast.walk(l.iter))]
    if not outer:
        raise AnalysisError(f"{rid}: add_var_hist is not inside a loop over _state_var_hist")
    outer = outer[0]
    if not (isinstance(outer.target, ast.Tuple) and len(outer.target.elts) == 2 and call_name(outer.iter) == "items"):
        raise AnalysisError(f"{rid}: unrecognised loop header {norm(outer)}")
    var_name, delays_name = (e.id for e in outer.target.elts)
    inner = [l for l in loops if l is not outer and isinstance(l.iter, ast.Call) and call_name(l.iter) == "items"
             and isinstance(l.iter.func.value, ast.Name) and l.iter.func.value.id == delays_name]
    # state_idx provenance
    idx_node = kw["state_idx"]
    ok_idx = False
    chain = []
    if isinstance(idx_node, ast.Name):
        rd = ctx.rd(f)
        defs = rd.defs_reaching(idx_node)
        roots = []
        for d in defs:
            v = assigned_value(d, idx_node.id)
            chain.append(norm(d))
            if v is None:
                roots.append(None)
            elif isinstance(v, ast.Subscript) and isinstance(v.value, ast.Name) and v.value.id == idx_node.id:
                continue        # idx = idx[0]: narrowing of the same range
            else:
                roots.append(v)
        def is_loop_var(nm: ast.AST) -> bool:
            # the loop's own variable, possibly through plain aliases (`var = hvar`)
            for _ in range(4):
                if not isinstance(nm, ast.Name):
                    return False
                if nm.id == var_name:
                    ds = rd.defs_reaching(nm)
                    if all(d is outer for d in ds):
                        return True
                from engine.util import single_def_value
                v = single_def_value(ctx, f, nm)
                if v is None:
                    return False
                nm = v
            return False
        def table_of(r):
            # the subscripted table, through stable local aliases (`indices = self._state_var_indices`)
            return normalise(ctx, f, r.value) if isinstance(r.value, ast.Name) else r.value
        ok_idx = bool(roots) and all(
            r is not None and isinstance(r, ast.Subscript) and is_attr_of(table_of(r), selfn, "_state_var_indices")
            and is_loop_var(r.slice) and contains(outer, r) for r in roots)
    # a (start, stop) range may be narrowed to its start only when it holds ONE entry: the narrowing statement `idx = idx[0]` must
    # be guarded by stop - start <= 1 (the generated look-up `hist(..)[start]` of a wider range reads one unit for all of them)
    if isinstance(idx_node, ast.Name):
        cfg = ctx.cfg(f)
        nm = idx_node.id
        for d in [x for x in cfg.stmts() if isinstance(x, ast.Assign) and len(x.targets) == 1 and isinstance(x.targets[0], ast.Name)
                  and x.targets[0].id == nm and isinstance(x.value, ast.Subscript) and isinstance(x.value.value, ast.Name)
                  and x.value.value.id == nm and isinstance(x.value.slice, ast.Constant) and x.value.slice.value == 0]:
            bound = None          # largest width for which the narrowing can execute
            seen_width_test = False
            W = sp.Symbol("W", integer=True)
            for g in [a for a in _anc(d) if isinstance(a, ast.If) and any(contains(b, d) for b in a.body)]:
                for t in (g.test.values if isinstance(g.test, ast.BoolOp) and isinstance(g.test.op, ast.And) else [g.test]):
                    if not (isinstance(t, ast.Compare) and len(t.ops) == 1):
                        continue

                    def leaf(n_):
                        if isinstance(n_, ast.Subscript) and isinstance(n_.value, ast.Name) and n_.value.id == nm and isinstance(n_.slice, ast.Constant):
                            return {0: sp.Integer(0), 1: W}.get(n_.slice.value)
                        if isinstance(n_, ast.Call) and call_name(n_) == "len" and n_.args and isinstance(n_.args[0], ast.Call) \
                                and call_name(n_.args[0]) == "range":
                            return None
                        return None
                    try:
                        l_, r_ = symx.to_sympy(t.left, leaf=leaf), symx.to_sympy(t.comparators[0], leaf=leaf)
                    except symx.Unsupported:
                        continue
                    if W not in (l_ - r_).free_symbols or (l_ - r_).free_symbols != {W}:
                        continue
                    seen_width_test = True
                    rel = {ast.Lt: sp.Lt, ast.LtE: sp.Le, ast.Gt: sp.Gt, ast.GtE: sp.Ge, ast.Eq: sp.Eq}.get(type(t.ops[0]))
                    if rel is None:
                        continue
                    ok_w = [w for w in range(0, 12) if bool(rel(l_, r_).subs(W, w))]
                    mx = max(ok_w) if ok_w else 0
                    bound = mx if bound is None else min(bound, mx)
            label = "a history range is narrowed to one index only when it has one entry"
            if not seen_width_test or bound is None:
                raise AnalysisError(f"{rid}: the narrowing `{norm(d)}` in to_func is not guarded by a recognisable test of the range width")
            if bound <= 1:
                ctx.ok(rid, f, d, "the (start, stop) range of a delayed variable is narrowed to `start` only when stop - start <= 1",
                       {"largest_width_narrowed": bound}, label=label)
            else:
                ctx.violation(rid, f, d, f"a (start, stop) range of width up to {bound} is narrowed to its start: the history look-up of a delayed "
                                         f"vector variable with {bound} entries reads entry `start` for all of them", {"largest_width_narrowed": bound},
                              label=label)
    facts = {"state_idx_defs": chain, "outer_loop": norm(outer)}
    if ok_idx:
        ctx.ok(rid, f, call, f"state_idx derives from _state_var_indices[{var_name}] of the loop's own variable", facts, label="state_idx provenance")
    else:
        ctx.violation(rid, f, call, "the state index handed to add_var_hist does not derive from _state_var_indices[var] of the variable "
                                    "whose history is read: the delayed term would read another variable's past", facts, label="state_idx provenance")
    if inner and isinstance(inner[0].target, ast.Tuple) and len(inner[0].target.elts) == 2:
        dn, hn = (e.id for e in inner[0].target.elts)
        if isinstance(kw["delay"], ast.Name) and kw["delay"].id == dn and isinstance(kw["lhs"], ast.Name) and kw["lhs"].id == hn:
            ctx.ok(rid, f, call, "delay and history-variable name come from the same entry of that variable's delay table", label="delay/name pairing")
        else:
            ctx.violation(rid, f, call, "delay and history-variable name are not taken from the same (delay, name) entry", label="delay/name pairing")
    else:
        raise AnalysisError(f"{rid}: inner loop over the variable's delay table not recognised")
    # producer: _get_var_hist — roles: TABLE = self._state_var_hist[var] (also spelt `.setdefault(var, {})` or through a local alias)
    g = ctx.repo.get_func(CG, "ComputeGraph._get_var_hist")
    gself = g.self_name
    for need in ("var", "delay"):
        ctx.require(need in g.params, f"{rid}: _get_var_hist lost its parameter `{need}`")

    def canon(e):
        e = normalise(ctx, g, e)

        class _C(ast.NodeTransformer):
            def visit_Call(self, c):
                self.generic_visit(c)
                if isinstance(c.func, ast.Attribute) and c.func.attr == "setdefault" and len(c.args) == 2 \
                        and ((isinstance(c.args[1], ast.Dict) and not c.args[1].keys) or (isinstance(c.args[1], ast.Call) and call_name(c.args[1]) == "dict"
                                                                                         and not c.args[1].args and not c.args[1].keywords)):
                    return ast.Subscript(value=c.func.value, slice=c.args[0], ctx=ast.Load())
                return c
        return _C().visit(e)
    TABLE = f"{gself}._state_var_hist[var]"
    two_level = []
    for st in walk_shallow(g.node):
        if isinstance(st, ast.Assign) and len(st.targets) == 1 and isinstance(st.targets[0], ast.Subscript):
            basee = canon(st.targets[0].value)
            if isinstance(basee, ast.Subscript) and is_attr_of(basee.value, gself, "_state_var_hist"):
                two_level.append((st, ast.unparse(basee.slice), ast.unparse(normalise(ctx, g, st.targets[0].slice))))
    if not two_level:
        raise AnalysisError(f"{rid}: _get_var_hist no longer stores into _state_var_hist[var][delay]")
    for st, k1, k2 in two_level:
        if k1 == "var" and k2 == "delay":
            ctx.ok(rid, g, st, "history variable registered under the (var, delay) it was requested for", label="registered under (var, delay)")
        else:
            ctx.violation(rid, g, st, f"history variable registered under ({k1}, {k2}) instead of (var, delay)", label="registered under (var, delay)")
    # the generated name is unique per (var, delay): `<var>_hist<k>` with k = number of delays already registered for THIS variable,
    # i.e. the size of the very table the name is stored into
    names = [st for st in walk_shallow(g.node) if isinstance(st, ast.Assign) and isinstance(st.value, ast.JoinedStr)]
    if len(names) != 1:
        raise AnalysisError(f"{rid}: history-variable name template not recognised in _get_var_hist")
    tpl = names[0].value
    holes = [v.value for v in tpl.values if isinstance(v, ast.FormattedValue)]
    lens = [h for h in holes if isinstance(h, ast.Call) and call_name(h) == "len" and h.args]
    var_hole = any(isinstance(h, ast.Name) and h.id == "var" for h in holes)
    if not lens:
        raise AnalysisError(f"{rid}: history-variable name has no counter component: {fstring_template(tpl)}")
    counted = ast.unparse(canon(lens[0].args[0]))
    if var_hole and counted == TABLE:
        ctx.ok(rid, g, names[0], "history-variable name = variable name + number of delays already registered for that variable (unique per (var, delay))",
               {"template": fstring_template(tpl)}, label="history-variable name is unique per (var, delay)")
    else:
        ctx.violation(rid, g, names[0], f"the history-variable name `{fstring_template(tpl)}` is not numbered by the size of the table it is stored "
                                        f"into ({TABLE}; it counts `{counted}`): two different delays of one variable can receive the same name, so both "
                                        f"delayed terms read the later one's history", {"template": fstring_template(tpl)},
                      label="history-variable name is unique per (var, delay)")
    # the call site in _expr_to_str passes the variable the `past` call names: past(x, d) -> history variable of (x, d).
    # Roles: `var` derives from argument 0 of the expression, `delay` from argument 1 (through any locals / private helpers).
    from engine.util import value_sources
    h0 = ctx.repo.get_func(CG, "ComputeGraph._expr_to_str")
    h = inlined(ctx, h0, keep=("_get_var_hist",))
    gc = [c for c in walk_shallow(h.node) if isinstance(c, ast.Call) and call_name(c) == "_get_var_hist"]
    if len(gc) != 1:
        raise AnalysisError(f"{rid}: expected one _get_var_hist call in _expr_to_str")
    gparams = [p_ for p_ in g.params if p_ != g.self_name]
    bound = {gparams[i]: a for i, a in enumerate(gc[0].args) if i < len(gparams)}
    bound.update({k.arg: k.value for k in gc[0].keywords if k.arg})
    if "var" not in bound or "delay" not in bound:
        raise AnalysisError(f"{rid}: the _get_var_hist call in _expr_to_str does not pass var and delay")

    def arg_indices(e):
        seen_ = []
        value_sources(ctx, h, e, visited=seen_)
        out = set()
        for x in seen_:
            for n_ in ast.walk(x):
                if isinstance(n_, ast.Subscript) and isinstance(n_.slice, ast.Constant) and isinstance(n_.slice.value, int) \
                        and not isinstance(n_.slice.value, bool) and _is_arg_list(n_.value):
                    out.add(n_.slice.value)
        return out
    vi, di = arg_indices(bound["var"]), arg_indices(bound["delay"])
    facts = {"var_from_argument": sorted(vi), "delay_from_argument": sorted(di)}
    if not vi or not di:
        raise AnalysisError(f"{rid}: cannot trace var/delay of the _get_var_hist call to arguments of the past(...) expression ({facts})")
    if vi == {0} and di == {1}:
        ctx.ok(rid, h0, gc[0], "past(x, d) is replaced by the history variable of (x, d)", facts, label="past(x, d) -> history of (x, d)")
    else:
        ctx.violation(rid, h0, gc[0], f"past(x, d) replacement requests the history of (argument {sorted(vi)}, delay from argument {sorted(di)}) "
                                      f"instead of (argument 0, argument 1)", facts, label="past(x, d) -> history of (x, d)")


def _is_arg_list(e) -> bool:
    """`<expr>.args` or a local list of (rendered) arguments; inliner suffixes (`name__helper_k`) are ignored."""
    if isinstance(e, ast.Attribute):
        return e.attr == "args"
    if isinstance(e, ast.Name):
        return "args" in re.sub(r"__\w+?_\d+$", "", e.id)
    return False


def _anc(n):
    p = getattr(n, "_parent", None)
    while p is not None:
        yield p
        p = getattr(p, "_parent", None)


def r3_solvers_feed_history(ctx, rid):
    for s in S.solver_instances(ctx):
        h = s.hist
        facts = {k: v for k, v in h.items() if k != "node"}
        node = h.get("node") or s.f.node
        key = (s.cls.name, s.solver)
        if h.get("kind") == "updates":
            if s.form == "loop" and h.get("guard_is_ddehistory_test") and h.get("receiver_is_args0") and h.get("after_update"):
                ctx.ok(rid, s.f, node, "feeds the DDEHistory after the state update under an isinstance(DDEHistory) test", facts)
            else:
                ctx.violation(rid, s.f, node, "the history update is not performed after the state update under a DDEHistory test on args[0]", facts)
        elif h.get("kind") == "raises":
            ctx.ok(rid, s.f, node, "refuses a DDEHistory argument (raises)", facts)
        elif key in R3_EXCEPTIONS:
            ctx.info(rid, s.f, s.f.node, f"neither updates nor refuses; frozen exception: {R3_EXCEPTIONS[key]}")
        else:
            ctx.violation(rid, s.f, s.f.node, f"{s.f.qualname} neither feeds a DDEHistory after each step nor raises when given one: a delayed "
                                              f"model would silently integrate against the constant initial history", facts,
                          label="history neither fed nor refused")


def r4_history_time_units(ctx, rid):
    for s in S.solver_instances(ctx):
        h = s.hist
        if h.get("kind") != "updates":
            continue
        facts = {k: v for k, v in h.items() if k != "node"}
        good = h.get("time_arg_ok") and h.get("state_arg_is_state") and h.get("state_untouched_between")
        if good:
            ctx.ok(rid, s.f, h["node"], "history receives ((i+1)*dt, updated state)", facts)
        else:
            ctx.violation(rid, s.f, h["node"], "history update must record time (i+1)*dt in time units and the state after the update", facts)
    # scipy DDE wrappers: solout(t, y_) forwards both unchanged to hist.update; rhs passes *args (incl. hist) through
    n = 0
    for cls in S.backend_classes(ctx):
        f0_ = cls.methods.get("_solve_scipy_dde")
        if f0_ is None:
            continue
        n += 1
        from engine.inline import inlined as _inl
        f = _inl(ctx, f0_)          # the dopri5 driver (callback + output loop) may live in a private helper shared by backends
        # roles: the callback registered with set_solout(...), the wrapper that calls the vector field `func`
        reg = [c for c in walk_shallow(f.node) if isinstance(c, ast.Call) and call_name(c) == "set_solout" and c.args]
        so = f.nested.get(reg[0].args[0].id) if reg and isinstance(reg[0].args[0], ast.Name) else None
        if so is None:
            cands = [g for g in f.nested.values() if any(isinstance(c, ast.Call) and call_name(c) == "update" for c in ast.walk(g.node))]
            so = cands[0] if len(cands) == 1 else None
        if so is None:
            outer_ups = [c for c in walk_shallow(f.node) if isinstance(c, ast.Call) and call_name(c) == "update" and isinstance(c.func, ast.Attribute)]
            if not reg and outer_ups:
                # positive reason: the history is fed by the wrapper's own loop over the OUTPUT times, no per-step callback is registered
                ctx.violation(rid, f, outer_ups[0], "the history is fed only where the wrapper asks the integrator for output (no per-step callback is "
                                                    "registered with set_solout): between two output times delayed terms read a stale / coarsely "
                                                    "interpolated past, so results depend on the sampling step", label="set_solout")
                continue
            raise AnalysisError(f"{rid}: {f.qual}: no nested callback that feeds the history (set_solout argument) found")
        ups = [c for c in ast.walk(so.node) if isinstance(c, ast.Call) and call_name(c) == "update"]
        params = so.params
        if len(ups) == 1 and [ast.unparse(a) for a in ups[0].args] == params[:2]:
            ctx.ok(rid, so, ups[0], "solout forwards (t, y) of each accepted step unchanged to the history", label="callback forwards (t, y)")
        else:
            ctx.violation(rid, so, so.node, "solout does not forward (t, y) of the accepted step unchanged to hist.update", label="callback forwards (t, y)")
        # the hist object updated is args[0], the same object func receives via *args
        recv = ups[0].func.value if ups and isinstance(ups[0].func, ast.Attribute) else None
        hist_def = []
        if isinstance(recv, ast.Name):
            hist_def = [st for st in walk_shallow(f.node) if isinstance(st, ast.Assign) and any(isinstance(t, ast.Name) and t.id == recv.id for t in st.targets)]
        good = len(hist_def) == 1 and ast.unparse(hist_def[0].value) == "args[0]"
        direct = recv is not None and ast.unparse(recv) == "args[0]"
        if good or direct:
            ctx.ok(rid, f, hist_def[0] if good else ups[0], "the history that is updated is args[0], the object the vector field queries", label="hist identity")
        else:
            ctx.violation(rid, f, f.node, "the updated history is not args[0] (the vector field would query a different object)", label="hist identity")
        wrappers = [g for g in f.nested.values() if g is not so and any(isinstance(c, ast.Call) and isinstance(c.func, ast.Name) and c.func.id == "func"
                                                                        for c in ast.walk(g.node))]
        for rhs in wrappers:
            fc = [c for c in ast.walk(rhs.node) if isinstance(c, ast.Call) and isinstance(c.func, ast.Name) and c.func.id == "func"]
            if fc and any(isinstance(a, ast.Starred) and ast.unparse(a.value) == "args" for a in fc[0].args):
                ctx.ok(rid, rhs, fc[0], "rhs wrapper passes *args (history first) through to the vector field", nontrivial=False, label="wrapper passes *args")
            else:
                ctx.violation(rid, rhs, rhs.node, "rhs wrapper does not pass the history through to the vector field", label="wrapper passes *args")
        # solout registered
        if any(isinstance(c, ast.Call) and call_name(c) == "set_solout" for c in walk_shallow(f.node)):
            ctx.ok(rid, f, f.node, "solout is registered with the integrator", label="set_solout", nontrivial=False)
        else:
            ctx.violation(rid, f, f.node, "solout is never registered: the history is not fed during adaptive integration", label="set_solout")
    if n < 1:
        raise AnalysisError(f"{rid}: no _solve_scipy_dde found")


def r5_default_history_interpolates(ctx, rid):
    """During run() the history handed to the compiled function is a DDEHistory: delayed terms read the true past only if its
    lookup clamps and interpolates between the neighbouring records for ANY query order (same rule as C19-R5), and if it
    records what it is given (C19-R2), as copies (C19-R1), and keeps the records across buffer growth (C19-R4)."""
    from .c19 import r5_query, r2_state_advances_together, r1_records_are_copies, r4_growth_keeps_records
    r5_query(ctx, rid)
    r2_state_advances_together(ctx, rid)
    r1_records_are_copies(ctx, rid)         # what is recorded is a copy that later steps / a buffer growth cannot change ...
    r4_growth_keeps_records(ctx, rid)       # ... and a growth of the buffer keeps row k under time k (runs longer than the first capacity)
    # the object handed out as default history is a DDEHistory of the initial state
    f = ctx.repo.get_func(S.BASE_REL, "BaseBackend.get_hist_func")
    rets = [n for n in walk_shallow(f.node) if isinstance(n, ast.Return)]
    ok = len(rets) == 1 and isinstance(rets[0].value, ast.Call) and call_name(rets[0].value) == "DDEHistory" \
        and rets[0].value.args and ast.unparse(rets[0].value.args[0]) == f.params[0]
    if ok:
        ctx.ok(rid, f, rets[0], "the default history is a DDEHistory started at the initial state", nontrivial=False)
    else:
        raise AnalysisError(f"{rid}: get_hist_func no longer returns DDEHistory(y, ...)")


def r6_supplied_history_wins(ctx, rid):
    """`hist` handed to get_run_func / run reaches the compiled function's argument tuple whenever the caller supplied it: in to_func
    the default DDEHistory (get_hist_func) may replace it only when the key is ABSENT (or None) - decided by presence, never by the
    truthiness of the supplied object (an empty sample buffer, any object with __len__ == 0 / __bool__ False is a legal history)."""
    from engine.inline import inlined
    from ._pitfall_lints import truthiness_of_optional_lookup, _is_none_default_lookup
    f0 = ctx.repo.get_func(CG, "ComputeGraph.to_func")
    f = inlined(ctx, f0)
    defaults = [c for c in walk_shallow(f.node) if isinstance(c, ast.Call) and call_name(c) == "get_hist_func"]
    if not defaults:
        raise AnalysisError(f"{rid}: to_func no longer builds a default history with get_hist_func")

    def is_hist_key(e):
        if isinstance(e, ast.Name):            # a module-level string constant naming the argument
            a = f0.module.assigns.get(e.id, [])
            e = a[0].value if len(a) == 1 and getattr(a[0], "value", None) is not None else e
        return isinstance(e, ast.Constant) and e.value == "hist"
    lookups = [c for c in walk_shallow(f.node) if isinstance(c, ast.Call) and isinstance(c.func, ast.Attribute) and c.func.attr in ("get", "pop")
               and c.args and is_hist_key(c.args[0])]
    subs = [n for n in walk_shallow(f.node) if isinstance(n, ast.Subscript) and is_hist_key(n.slice)]
    member = [n for n in walk_shallow(f.node) if isinstance(n, ast.Compare) and len(n.ops) == 1 and isinstance(n.ops[0], (ast.In, ast.NotIn))
              and is_hist_key(n.left)]
    if not lookups and not subs:
        ctx.violation(rid, f0, defaults[0], "to_func never reads a caller-supplied `hist`: the default history of the initial state is always used",
                      label="supplied history")
        return
    bad = [(site, why) for (_f, site, why, lk) in truthiness_of_optional_lookup(ctx, [f]) if lk.args and is_hist_key(lk.args[0])]
    for site, why in bad:
        ctx.violation(rid, f0, site, f"the caller's history is replaced by the default whenever it is falsy: {why} - an empty sample buffer or any "
                                     f"history object with __len__()==0 is silently ignored and every delayed term reads the constant initial state",
                      label="supplied history")
    if bad:
        return
    # recognised presence forms: membership test on the key, or `is None` / `is not None` on the looked-up value
    # ... or an identity test against the default of the look-up (`pop('hist', _MISSING)` ... `is _MISSING`)
    sentinels = {ast.unparse(c.args[1]) for c in lookups if len(c.args) == 2 and isinstance(c.args[1], (ast.Name, ast.Attribute))}
    is_none = [n for n in walk_shallow(f.node) if isinstance(n, ast.Compare) and len(n.ops) == 1 and isinstance(n.ops[0], (ast.Is, ast.IsNot))
               and ((isinstance(n.comparators[0], ast.Constant) and n.comparators[0].value is None)
                    or ast.unparse(n.comparators[0]) in sentinels)]
    guarded = []
    for d in defaults:
        for a in _anc(d):
            if isinstance(a, (ast.If, ast.IfExp)) and (any(m is t or contains(a.test, m) for m in member for t in [a.test])
                                                       or any(contains(a.test, m) or m is a.test for m in is_none)):
                guarded.append(d)
                break
    if len(guarded) == len(defaults):
        ctx.ok(rid, f0, defaults[0], "the default history is used only when no `hist` was supplied (presence test)", {"tests": [norm(m) for m in member + is_none][:4]},
               label="supplied history")
    else:
        raise AnalysisError(f"{rid}: cannot decide how to_func chooses between the supplied and the default history (unrecognised form)")


def r7_step_mode_travels_together(ctx, rid):
    """Whether `t` counts steps or time is the PAIR (dt, dt_adapt): `t*dt` exactly when dt is given and dt_adapt is false.  A function
    that receives both and calls another function of the package that also takes both must hand over both - with only `dt` forwarded
    the callee falls back to its default `dt_adapt` and converts (or does not convert) the time argument of the history read on its
    own.  (`**kwargs` of the caller cannot carry `dt_adapt` when it is a named parameter of the caller.)"""
    n = 0
    for f in ctx.repo.functions.values():
        if not (f.module.rel.startswith("pyrates/backend/") or f.module.rel in ("pyrates/ir/circuit.py",)):
            continue
        if not {"dt", "dt_adapt"} <= set(f.params):
            continue
        for c in walk_shallow(f.node):
            if not isinstance(c, ast.Call):
                continue
            targets, how = ctx.cg.resolve_call(f, c)
            targets = [g for g in targets if {"dt", "dt_adapt"} <= set(g.params)]
            if not targets or how in ("external",) or str(how).startswith("unresolved"):
                continue
            g = targets[0]
            kws = {k.arg for k in c.keywords if k.arg}
            pos = [p for p in g.params if p not in ("self", "cls")][:len(c.args)]
            given = kws | set(pos)
            n += 1
            label = f"call {norm(c)[:60]}"
            if "dt" in given and "dt_adapt" not in given:
                ctx.violation(rid, f, c, f"`{norm(c)[:90]}` forwards `dt` but not `dt_adapt` to {g.qualname}: the callee applies its default step mode "
                                         f"(dt_adapt={_default_of(g, 'dt_adapt')}) whatever mode this function was called with, so the history is read at "
                                         f"`t - d` where `t*dt - d` is due (or the reverse)", label=label)
            elif "dt_adapt" in given and "dt" not in given:
                ctx.violation(rid, f, c, f"`{norm(c)[:90]}` forwards `dt_adapt` but not `dt` to {g.qualname}", label=label)
            else:
                ctx.ok(rid, f, c, f"dt and dt_adapt are handed to {g.qualname} together", label=label, nontrivial=False)
    if n == 0:
        ctx.ok(rid, None, None, "no function of the backend hands the step mode (dt, dt_adapt) on to another one (nothing to decide)",
               construct="backend::step mode forwarding", loc="pyrates/backend/base/base_backend.py:1", nontrivial=False)


def _default_of(g, name):
    a = g.node.args
    pos = a.posonlyargs + a.args
    for p, d in zip(pos[len(pos) - len(a.defaults):], a.defaults):
        if p.arg == name:
            return ast.unparse(d)
    for p, d in zip(a.kwonlyargs, a.kw_defaults):
        if p.arg == name and d is not None:
            return ast.unparse(d)
    return "?"


RULES = [
    ("C10-R1", r1_add_var_hist, 2),
    ("C10-R2", r2_history_index_is_state_index, 5),
    ("C10-R3", r3_solvers_feed_history, 3),
    ("C10-R4", r4_history_time_units, 6),
    ("C10-R5", r5_default_history_interpolates, 6),
    ("C10-R6", r6_supplied_history_wins, 1),
    ("C10-R7", r7_step_mode_travels_together, 1),
]
