"""C14 — read-only and copy-making operations leave a template unchanged (DESIGN §4 C14)."""
from __future__ import annotations

import ast

from engine import AnalysisError
from engine.srcmodel import walk_shallow, norm
from engine.util import call_name
from engine.effects import analyse, fmt_origin, FRESH
from engine.inline import inlined

PROPERTY = "C14"
FC = "pyrates/frontend/template/circuit.py"
FO = "pyrates/frontend/template/operator.py"
FG = "pyrates/frontend/template/operator_graph.py"
FD = "pyrates/frontend/dict.py"
FT = "pyrates/frontend/template/__init__.py"
FY = "pyrates/frontend/fileio/yaml.py"
FP = "pyrates/frontend/template/population.py"

EXPLANATION = (
    "Equality of vector fields before/after a call is not decidable statically.  Decided: the *effect* clause.  An alias-tracking "
    "mutation analysis (engine/effects.py: origins param/global/fresh/shallow-copy, fixpoint summaries over the resolved call graph, "
    "context-sensitive in the `in_place` flag) computes for every declared read-only or copy-making entry point the set of objects "
    "reachable from its template arguments that it may mutate, transitively.  R1: for every entry point of the frozen table "
    "(get_nodes, get_edges, get_edge, collect_edges, get_node_template, get_var, get_variable_positions, __getitem__, to_yaml, "
    "dump_to_yaml, frontend.dict.from_*, update_template with in_place false on all template classes, template.from_yaml/to_yaml) that "
    "set must be empty for template *content* (anything but the bookkeeping attributes _ir, _state_var_*, _vectorization_*, _depth, the "
    "class-level cache, and declared accumulator parameters).  R2: with in_place false, run/get_run_func/get_jacobian_func write only "
    "bookkeeping attributes of self, and every compiling call (_add_input, apply, clear) has a receiver whose origin is the deepcopy.  "
    "R3: no template class defines copy hooks (__deepcopy__/__copy__/__reduce__/__getstate__/__setstate__) - if one appears it is analysed "
    "as a read-only entry point.  NOT decided: that deepcopy copies everything (library), equality of results, mutations through "
    "references stored inside other objects (not tracked as aliases), effects of unresolved calls (counted in evidence)."
)
RULE_TEXT = ("one obligation per (entry point, in_place variant); violations are reported per mutation event (statement, mutated access "
             "path, callee chain). Non-trivial = transitive effect summary needed.")
ASSUMPTIONS = ["copy.deepcopy returns an object sharing nothing mutable with its argument.",
               "Constructors of template classes return fresh objects (they may hold references to their arguments; holding is not mutating)."]

BOOKKEEPING = ("._ir", "._state_var_indices", "._state_var_values", "._vectorization_labels", "._vectorization_indices", "._depth",
               ".cache")
ACCUMULATORS = {"return_dict", "full_dict", "kwargs"}

# (rel, qualname, in_place variant or None, protected parameters or None = all but accumulators)
ENTRY_POINTS = [
    (FC, "CircuitTemplate.get_nodes", None), (FC, "CircuitTemplate.get_edges", None), (FC, "CircuitTemplate.get_edge", None),
    (FC, "CircuitTemplate.collect_edges", None), (FC, "CircuitTemplate.get_node_template", None), (FC, "CircuitTemplate.get_var", None),
    (FC, "CircuitTemplate.get_variable_positions", None), (FC, "CircuitTemplate.__getitem__", None),
    (FC, "CircuitTemplate.to_yaml", None), (FC, "CircuitTemplate.update_template", False),
    (FC, "CircuitTemplate._get_nodes_with_var", None), (FC, "CircuitTemplate._get_hierarchy_depth", None),
    (FC, "CircuitTemplate._get_var_idx", None), (FC, "CircuitTemplate._group_edges", None),
    (FO, "OperatorTemplate.update_template", None), (FO, "OperatorTemplate.__getitem__", None),
    (FG, "OperatorGraphTemplate.update_template", None), (FG, "OperatorGraphTemplate.__getitem__", None),
    (FG, "OperatorGraphTemplate.get_op", None),
    (FD, "from_circuit", None), (FD, "from_node", None), (FD, "from_operator", None), (FD, "from_edge", None), (FD, "add_to_dict", None),
    (FT, "to_yaml", None), (FT, "from_yaml", None), (FY, "dump_to_yaml", None),
]


def _is_content(path) -> bool:
    if not path:
        return False        # re-binding the parameter itself is not a mutation
    return not any(path[0] == b for b in BOOKKEEPING)


def _is_derived_private_state(ctx, cls, step: str) -> bool:
    """`._x` of a template object that every constructor in the MRO initialises from constants only (an empty container, a literal):
    state the object derives for itself, not part of the definition a caller handed in.  An attribute the constructors do not
    initialise at all, or initialise from a parameter, is content."""
    from engine.util import value_sources
    if not (step.startswith("._") and not step.startswith(".__")):
        return False
    attr = step[1:]
    inits = [c.methods["__init__"] for c in cls.mro if hasattr(c, "methods") and "__init__" in c.methods]
    found = False
    for init in inits:
        for st in walk_shallow(init.node):
            if isinstance(st, (ast.Assign, ast.AnnAssign)):
                tgts = st.targets if isinstance(st, ast.Assign) else [st.target]
                for t in tgts:
                    if isinstance(t, ast.Attribute) and t.attr == attr and isinstance(t.value, ast.Name) and t.value.id == init.self_name:
                        if st.value is None:
                            continue
                        found = True
                        params, attrs, _calls = value_sources(ctx, init, st.value)
                        if (set(params) - {init.self_name}) or any(a.startswith(init.self_name + ".") for a in attrs):
                            return False
    return found


def check_entry(ctx, rid, f, variant, protected=None):
    eff = ctx.effects
    evs = eff.events_of(f, variant if variant in eff.variants(f) else None)
    bad = []
    derived = []
    for e in evs:
        o = e.origin
        if o[0] != "P":
            continue
        if o[1] in ACCUMULATORS:
            continue
        if protected is not None and o[1] not in protected:
            continue
        if f.cls is not None and o[1] != f.self_name and protected is None:
            # arguments of methods: only template-typed parameters are protected; plain dict/list arguments are the caller's
            continue
        if _is_content(o[2]):
            if f.cls is not None and o[1] == f.self_name and _is_derived_private_state(ctx, f.cls, o[2][0]):
                derived.append(e)
                continue
            bad.append(e)
    for e in derived[:1]:
        ctx.info(rid, f, e.stmt, f"writes the private attribute `{e.origin[2][0]}`, which the constructor initialises from constants only (derived "
                                 f"state, not template content)", label=f"{f.qualname} derived state {e.origin[2][0]}")
    label = f"{f.qualname}" + ("" if variant is None else f" [in_place={variant}]")
    if not bad:
        ctx.ok(rid, f, f.node, "no mutation of template content reachable from its arguments (transitive effect summary empty)",
               {"variant": variant, "mutates": sorted(p + "".join(path) for p, path in eff.mutates(f, variant if variant in eff.variants(f) else None))},
               label=label)
        return
    seen = set()
    for e in bad:
        k = (id(e.stmt), e.origin)
        if k in seen:
            continue
        seen.add(k)
        ctx.violation(rid, f, e.stmt, f"{label} is documented as read-only/copy-making but may mutate `{fmt_origin(e.origin)}`: {e.how}",
                      {"mutated": fmt_origin(e.origin), "via": list(e.via), "variant": variant})


def r1_read_only_entry_points(ctx, rid):
    n = 0
    for rel, q, variant in ENTRY_POINTS:
        f = ctx.repo.get_func(rel, q)
        n += 1
        check_entry(ctx, rid, f, variant)
    ctx.notes.append(f"{rid}: effect fixpoint took {ctx.effects.iterations} iterations; {ctx.effects.unknown_mutations} mutation events on "
                     f"objects of unknown origin (not flagged)")


COMPILE_CALLS = {"_add_input", "apply", "clear", "_add_input_node"}


def r2_in_place_false_works_on_copy(ctx, rid):
    eff = ctx.effects
    for q in ("CircuitTemplate.run", "CircuitTemplate.get_run_func", "CircuitTemplate.get_jacobian_func"):
        f = ctx.repo.get_func(FC, q)
        if "in_place" not in f.params:
            raise AnalysisError(f"{rid}: {q} lost its in_place parameter")
        check_entry(ctx, rid, f, False, protected={f.self_name})
        # view with private helpers spliced in: the compiling calls may live in an extracted `_compile...` helper
        fi = inlined(ctx, f)
        an = analyse(eff, fi, False)
        if an.variant is not False:
            raise AnalysisError(f"{rid}: {q} re-binds in_place; cannot specialise")
        n_calls = 0
        for c in walk_shallow(fi.node):
            if isinstance(c, ast.Call) and isinstance(c.func, ast.Attribute) and c.func.attr in COMPILE_CALLS:
                recv = c.func.value
                if isinstance(recv, ast.Attribute):       # net._ir.clear() etc. are not template calls
                    continue
                orig = an.origins(recv)
                if c.func.attr == "clear" and orig and all(o[0] == "G" for o in orig):
                    continue        # `.clear()` of a module-level container (a name registry), not the template's clear()
                n_calls += 1
                if orig and all(o[0] == "F" for o in orig):
                    ctx.ok(rid, f, c, f"`{ast.unparse(recv)}.{c.func.attr}(...)` acts on the deep copy when in_place is false",
                           {"receiver_origins": sorted(fmt_origin(o) for o in orig), "inlined_helpers": list(fi.inlined_helpers)},
                           label=f"{f.qualname} {c.func.attr} receiver L{n_calls}")
                else:
                    ctx.violation(rid, f, c, f"with in_place=False the compiling call `{ast.unparse(recv)}.{c.func.attr}(...)` acts on "
                                             f"{sorted(fmt_origin(o) for o in orig)} instead of the deep copy of the template",
                                  {"receiver_origins": sorted(fmt_origin(o) for o in orig)},
                                  label=f"{f.qualname} {c.func.attr} receiver L{n_calls}")
        if n_calls < 2:
            raise AnalysisError(f"{rid}: {q}: expected calls of _add_input/apply/clear, found {n_calls}")
        # the copy is made by deepcopy: the working template is `<self> if in_place else deepcopy(<self>)` (either arm order)
        mk = []
        for st in walk_shallow(fi.node):
            if isinstance(st, ast.Assign) and isinstance(st.value, ast.IfExp):
                t = st.value.test
                neg = isinstance(t, ast.UnaryOp) and isinstance(t.op, ast.Not)
                t = t.operand if neg else t
                if isinstance(t, ast.Name) and t.id == "in_place":
                    mk.append((st, st.value.body if neg else st.value.orelse))
            elif isinstance(st, ast.If):
                t = st.test
                neg = isinstance(t, ast.UnaryOp) and isinstance(t.op, ast.Not)
                t = t.operand if neg else t
                if isinstance(t, ast.Name) and t.id == "in_place":
                    arm = st.body if neg else st.orelse
                    for x in arm:
                        if isinstance(x, ast.Assign) and isinstance(x.value, ast.Call):
                            mk.append((x, x.value))
        if len(mk) != 1:
            raise AnalysisError(f"{rid}: {q}: the `self if in_place else deepcopy(self)` binding was not found")
        mst, alt = mk[0]
        if isinstance(alt, ast.Call) and call_name(alt) == "deepcopy" and alt.args and ast.unparse(alt.args[0]) == f.self_name:
            ctx.ok(rid, f, mst, "the working template is deepcopy(self) when in_place is false", nontrivial=False,
                   label=f"{f.qualname} working copy")
        else:
            ctx.violation(rid, f, mst, f"with in_place=False the working template is `{ast.unparse(alt)}`, not a deep copy of self "
                                       f"(a shallow copy shares node/operator templates and edge dictionaries)",
                          label=f"{f.qualname} working copy")


COPY_HOOKS = ("__deepcopy__", "__copy__", "__reduce__", "__reduce_ex__", "__getstate__", "__setstate__")


def r3_copy_hooks(ctx, rid):
    base = ctx.repo.get_class("pyrates/frontend/template/abc.py", "AbstractBaseTemplate")
    classes = ctx.repo.subclasses(base)
    pop = ctx.repo.classes.get(f"{FP}::PopulationTemplate")
    if pop is not None and pop not in classes:
        classes.append(pop)
    found = 0
    for c in classes:
        for h in COPY_HOOKS:
            if h in c.methods:
                found += 1
                check_entry(ctx, rid, c.methods[h], None)
    ctx.ok(rid, None, None, f"{len(classes)} template classes scanned for copy hooks; {found} found and analysed as read-only entry points",
           {"classes": [c.name for c in classes]}, construct="pyrates/frontend/template::copy hooks", loc="pyrates/frontend/template/abc.py:1",
           nontrivial=False)
    if len(classes) < 5:
        raise AnalysisError(f"{rid}: only {len(classes)} template classes found")


def r4_repeated_run_uses_fresh_positions(ctx, rid):
    """`run(in_place=False)` must return identical results whatever was called before on the template: the state-vector layout
    that get_run_func/get_jacobian_func leave on the template must not influence the output positions (same rule as C06-R4)."""
    from .c06 import r4_positions_inside_backend_variable
    r4_positions_inside_backend_variable(ctx, rid)


RULES = [
    ("C14-R1", r1_read_only_entry_points, 25),
    ("C14-R2", r2_in_place_false_works_on_copy, 10),
    ("C14-R3", r3_copy_hooks, 1),
    ("C14-R4", r4_repeated_run_uses_fresh_positions, 2),
]
