"""Helpers shared by rules/c01.py and rules/c05.py (bounded path enumeration, name scoping, membership-test facts,
reader for check_vname's reserved vocabulary, f-string key templates)."""
from __future__ import annotations

import ast
from typing import Dict, Iterable, List, Optional, Set, Tuple

from engine import AnalysisError
from engine.cfg import CFG
from engine.dataflow import target_names, assigned_value
from engine.srcmodel import walk_shallow, parent
from engine.util import contains, fstring_template

OPERATOR_REL = "pyrates/frontend/template/operator.py"


# ------------------------------------------------------------------------------------------------
# names and scopes
# ------------------------------------------------------------------------------------------------

def bound_by_inner_scope(name_node: ast.Name, within: ast.AST) -> bool:
    """Is this Name load bound by a comprehension / lambda that lies inside `within` (so it does not read the
    function-level variable of the same name)?"""
    p = parent(name_node)
    while p is not None and p is not within:
        if isinstance(p, (ast.ListComp, ast.SetComp, ast.DictComp, ast.GeneratorExp)):
            for k, g in enumerate(p.generators):
                if name_node.id in target_names(g.target):
                    # the iterable of the first generator is evaluated in the enclosing scope
                    if not (k == 0 and contains(g.iter, name_node)):
                        return True
        if isinstance(p, ast.Lambda):
            a = p.args
            names = [x.arg for x in a.posonlyargs + a.args + a.kwonlyargs]
            if a.vararg:
                names.append(a.vararg.arg)
            if a.kwarg:
                names.append(a.kwarg.arg)
            if name_node.id in names:
                return True
        p = parent(p)
    return False


def loads(node: ast.AST) -> List[ast.Name]:
    return [n for n in ast.walk(node) if isinstance(n, ast.Name) and isinstance(n.ctx, ast.Load)]


def load_ids(node: ast.AST) -> Set[str]:
    return {n.id for n in loads(node)}


def strip_wrappers(e: ast.AST, wrappers=("tuple", "list")) -> ast.AST:
    """tuple(x) / list(x) -> x (order-preserving re-packaging)."""
    while isinstance(e, ast.Call) and isinstance(e.func, ast.Name) and e.func.id in wrappers and len(e.args) == 1 \
            and not e.keywords:
        e = e.args[0]
    return e


# ------------------------------------------------------------------------------------------------
# bounded path enumeration (loops unrolled: every CFG node at most `max_visits` times)
# ------------------------------------------------------------------------------------------------

def bounded_paths(cfg: CFG, *, max_visits: int = 2, limit: int = 4000):
    """All paths ENTRY -> EXIT/RAISE in which no node occurs more than `max_visits` times.

    A path is a list of (node, labels_of_edge_taken_from_previous_node); the first element is (ENTRY, frozenset()).
    With max_visits=2 a `while` header may be evaluated twice: enter the body once, come back, leave."""
    out = []
    stack = [(cfg.ENTRY, [(cfg.ENTRY, frozenset())], {cfg.ENTRY: 1})]
    while stack:
        n, path, seen = stack.pop()
        if n is cfg.EXIT or n is cfg.RAISE:
            out.append(path)
            if len(out) > limit:
                raise AnalysisError(f"path explosion (> {limit} paths) in {getattr(cfg.func, 'name', '?')}")
            continue
        for s in cfg.g.successors(n):
            c = seen.get(s, 0)
            if c >= max_visits:
                continue
            labels = frozenset(cfg.g[n][s]["labels"])
            seen2 = dict(seen)
            seen2[s] = c + 1
            stack.append((s, path + [(s, labels)], seen2))
    return out


def branch_outcome(labels: Iterable[str]) -> Optional[bool]:
    """Outcome of the test of an If/While header given the labels of the edge leaving it."""
    labels = set(labels)
    if labels & {"true"} and not labels & {"false"}:
        return True
    if labels & {"false"} and not labels & {"true"}:
        return False
    return None


def membership_facts(test: ast.AST, outcome: bool) -> List[Tuple[str, str, bool]]:
    """Facts (name, table_text, is_member) implied by `test` evaluating to `outcome`.

    Understands `x in T`, `x not in T`, `not <t>`, `a and b` (when true), `a or b` (when false)."""
    if isinstance(test, ast.UnaryOp) and isinstance(test.op, ast.Not):
        return membership_facts(test.operand, not outcome)
    if isinstance(test, ast.BoolOp):
        if isinstance(test.op, ast.And) and outcome:
            return [f for v in test.values for f in membership_facts(v, True)]
        if isinstance(test.op, ast.Or) and not outcome:
            return [f for v in test.values for f in membership_facts(v, False)]
        return []
    if isinstance(test, ast.Compare) and len(test.ops) == 1 and isinstance(test.left, ast.Name):
        op = test.ops[0]
        table = test.comparators[0]
        if isinstance(op, ast.In):
            return [(test.left.id, _table_text(table), outcome)]
        if isinstance(op, ast.NotIn):
            return [(test.left.id, _table_text(table), not outcome)]
    # `T.get(x) is None` / `T.get(x) is not None` (no default given): absent / present
    if isinstance(test, ast.Compare) and len(test.ops) == 1 and isinstance(test.ops[0], (ast.Is, ast.IsNot, ast.Eq, ast.NotEq)) \
            and isinstance(test.comparators[0], ast.Constant) and test.comparators[0].value is None:
        c = test.left
        if isinstance(c, ast.Call) and isinstance(c.func, ast.Attribute) and c.func.attr == "get" and len(c.args) == 1 \
                and not c.keywords and isinstance(c.args[0], ast.Name):
            is_none = isinstance(test.ops[0], (ast.Is, ast.Eq))
            return [(c.args[0].id, _table_text(c.func.value), (not outcome) if is_none else outcome)]
    return []


def _table_text(e: ast.AST) -> str:
    # `T`, `T.keys()`, `list(T)`, `set(T)` all denote membership in T's keys
    while True:
        if isinstance(e, ast.Call) and isinstance(e.func, ast.Attribute) and e.func.attr == "keys" and not e.args:
            e = e.func.value
            continue
        if isinstance(e, ast.Call) and isinstance(e.func, ast.Name) and e.func.id in ("list", "set", "tuple", "frozenset") \
                and len(e.args) == 1:
            e = e.args[0]
            continue
        break
    return ast.unparse(e)


# ------------------------------------------------------------------------------------------------
# check_vname: the vocabulary a user may not use
# ------------------------------------------------------------------------------------------------

class Reserved:
    """check_vname's vocabulary.  `names` / `parts` are *effective* only when the corresponding test raises and check_vname
    is applied to every declared variable name; otherwise they are empty (the raw tables stay in raw_names / raw_parts)."""

    def __init__(self, f, raw_names, raw_parts, names_stmt, parts_stmt, names_test, parts_test, names_raise, parts_raise,
                 applied_in, applied_call):
        self.f = f
        self.raw_names, self.raw_parts = set(raw_names), list(raw_parts)
        self.names_stmt, self.parts_stmt = names_stmt, parts_stmt
        self.names_test, self.parts_test = names_test, parts_test
        self.names_raise, self.parts_raise = names_raise, parts_raise
        self.applied_in, self.applied_call = applied_in, applied_call
        ok = applied_call is not None
        self.names: Set[str] = set(raw_names) if (names_raise and ok) else set()
        self.parts: List[str] = list(raw_parts) if (parts_raise and ok) else []

    def why(self, literal: str) -> Optional[str]:
        """Reason why no user variable can carry a name that contains `literal` as a contiguous piece (None if it can)."""
        for p in self.parts:
            if p in literal:
                return f"contains the reserved sub-string '{p}'"
        return None

    def why_exact(self, name: str) -> Optional[str]:
        if name in self.names:
            return f"'{name}' is a reserved name"
        return self.why(name)


def call_name_of(c: ast.Call) -> Optional[str]:
    return c.func.id if isinstance(c.func, ast.Name) else (c.func.attr if isinstance(c.func, ast.Attribute) else None)


def always_raises(body) -> Optional[bool]:
    """True: every path through the statement list ends in a `raise`; False: the list contains no `raise` at all;
    None: it raises on some paths only (or in a form that is not understood)."""
    if not body:
        return False
    last = body[-1]
    if isinstance(last, ast.Raise):
        return True
    if not any(isinstance(n, ast.Raise) for st in body for n in ast.walk(st)):
        return False
    if isinstance(last, ast.If) and last.orelse and always_raises(last.body) and always_raises(last.orelse):
        return True
    if isinstance(last, ast.If) and isinstance(last.test, ast.Constant) and last.test.value and always_raises(last.body):
        return True
    return None


def string_collection(ctx, scope, e: ast.AST, depth: int = 0):
    """(list of strings, defining statement) when `e` denotes a constant collection of strings: a list / tuple / set literal of
    string constants, list(...)/tuple(...)/set(...)/frozenset(...) of one, a concatenation of such, a local name with exactly
    one such definition in function `scope`, or a module-level constant (also imported).  None otherwise.
    `scope` is a FunctionInfo or a Module."""
    from engine.srcmodel import FunctionInfo
    from engine.dataflow import stmt_defs
    if depth > 6 or e is None:
        return None
    if isinstance(e, (ast.List, ast.Tuple, ast.Set)):
        if all(isinstance(x, ast.Constant) and isinstance(x.value, str) for x in e.elts):
            return [x.value for x in e.elts], None
        return None
    if isinstance(e, ast.Call) and isinstance(e.func, ast.Name) and e.func.id in ("set", "frozenset", "tuple", "list") \
            and len(e.args) == 1 and not e.keywords:
        return string_collection(ctx, scope, e.args[0], depth + 1)
    if isinstance(e, ast.BinOp) and isinstance(e.op, (ast.Add, ast.BitOr)):
        l, r = string_collection(ctx, scope, e.left, depth + 1), string_collection(ctx, scope, e.right, depth + 1)
        return (l[0] + r[0], l[1] or r[1]) if l is not None and r is not None else None
    module = scope.module if isinstance(scope, FunctionInfo) else scope
    if isinstance(e, ast.Name):
        if isinstance(scope, FunctionInfo) and ctx.rd(scope).is_local(e.id):
            if e.id in scope.params:
                return None
            defs = [st for st in ctx.cfg(scope).stmts() if e.id in stmt_defs(st)]
            if len(defs) != 1:
                return None
            r = string_collection(ctx, scope, assigned_value(defs[0], e.id), depth + 1)
            return (r[0], r[1] or defs[0]) if r is not None else None
        return _module_strings(ctx, module, e.id, depth)
    if isinstance(e, ast.Attribute):
        base = ctx.repo.resolve_expr(module, e.value)
        if base is not None and hasattr(base, "assigns"):
            return _module_strings(ctx, base, e.attr, depth)
    return None


def _module_strings(ctx, m, name: str, depth: int):
    if name in m.assigns:
        sts = m.assigns[name]
        if len(sts) != 1:
            return None
        r = string_collection(ctx, m, assigned_value(sts[0], name), depth + 1)
        return (r[0], r[1] or sts[0]) if r is not None else None
    if name in m.imports:
        src, sym = m.imports[name]
        tm = ctx.repo.modules.get(src)
        if tm is not None and sym is not None and sym != "*":
            return _module_strings(ctx, tm, sym, depth + 1)
    return None


def read_reserved(ctx, rid: str) -> Reserved:
    """Read the reserved names / name parts from check_vname *by structure*: a constant string collection L with
    `if v in L: <raise>` and a collection P with `for d in P: if d in v: <raise>` (or `if any(d in v for d in P): <raise>`),
    where v is the function's first parameter; the collections may be locals, literals in the test or module-level
    constants.  Also finds the call that applies check_vname to every declared variable name (OperatorTemplate.apply)."""
    f = ctx.repo.get_func(OPERATOR_REL, "check_vname")
    if not f.params:
        raise AnalysisError(f"{rid}: check_vname has no parameter")
    v = f.params[0]

    def raises(body) -> bool:
        r = always_raises(body)
        if r is None:
            raise AnalysisError(f"{rid}: check_vname: the branch `{ast.unparse(body[0])[:60]}…` raises on some paths only (unrecognised)")
        return r

    def is_v(e) -> bool:
        return isinstance(e, ast.Name) and e.id == v

    def in_test(t, left_is, right_is, signed=False):
        """`<left> in <right>` -> (left, right) when the operands have the requested roles.  With signed=True also
        `<left> not in <right>` / `not (<left> in <right>)`, returned as (left, right, polarity)."""
        pol = True
        while signed and isinstance(t, ast.UnaryOp) and isinstance(t.op, ast.Not):
            t, pol = t.operand, not pol
        if isinstance(t, ast.Compare) and len(t.ops) == 1 and left_is(t.left) and right_is(t.comparators[0]):
            if isinstance(t.ops[0], ast.In):
                return (t.left, t.comparators[0], pol) if signed else ((t.left, t.comparators[0]) if pol else None)
            if signed and isinstance(t.ops[0], ast.NotIn):
                return t.left, t.comparators[0], not pol
        return None

    def hit_branch(st, pol):
        """Statements executed when the membership test is true."""
        return st.body if pol else st.orelse

    def part_search(e, depth=0):
        """The string collection P when `e` is truthy / not None exactly if some element of P occurs in v."""
        if depth > 4:
            return None
        if isinstance(e, ast.Name) and not is_v(e):
            defs = ctx.rd(f).defs_reaching(e)
            val = assigned_value(defs[0], e.id) if len(defs) == 1 and not isinstance(defs[0], ast.arguments) else None
            return part_search(val, depth + 1) if val is not None else None
        if not isinstance(e, ast.Call) and not isinstance(e, (ast.ListComp, ast.GeneratorExp, ast.SetComp)):
            return None
        comp = None
        if isinstance(e, ast.Call) and isinstance(e.func, ast.Name) and e.args:
            a0 = e.args[0]
            if e.func.id == "any" and len(e.args) == 1 and isinstance(a0, (ast.GeneratorExp, ast.ListComp)) \
                    and len(a0.generators) == 1 and not a0.generators[0].ifs and isinstance(a0.generators[0].target, ast.Name):
                g = a0.generators[0]
                if in_test(a0.elt, lambda x: isinstance(x, ast.Name) and x.id == g.target.id, is_v) is not None:
                    return string_collection(ctx, f, g.iter)
                return None
            if e.func.id == "next" and len(e.args) == 2 and isinstance(e.args[1], ast.Constant) and e.args[1].value is None:
                comp = a0
            elif e.func.id in ("list", "tuple", "set", "bool", "len") and len(e.args) == 1:
                return part_search(a0, depth + 1)
        elif isinstance(e, (ast.ListComp, ast.GeneratorExp, ast.SetComp)):
            comp = e
        # (d for d in P if d in v)
        if isinstance(comp, (ast.ListComp, ast.GeneratorExp, ast.SetComp)) and len(comp.generators) == 1:
            g = comp.generators[0]
            if isinstance(g.target, ast.Name) and len(g.ifs) == 1 and isinstance(comp.elt, ast.Name) and comp.elt.id == g.target.id \
                    and in_test(g.ifs[0], lambda x: isinstance(x, ast.Name) and x.id == g.target.id, is_v) is not None:
                return string_collection(ctx, f, g.iter)
        return None

    def part_hit_test(t):
        """(collection, polarity) when test `t` decides whether some reserved part occurs in v (polarity: true = occurs)."""
        pol = True
        while isinstance(t, ast.UnaryOp) and isinstance(t.op, ast.Not):
            t, pol = t.operand, not pol
        if isinstance(t, ast.Compare) and len(t.ops) == 1:
            op, rhs = t.ops[0], t.comparators[0]
            if isinstance(rhs, ast.Constant) and rhs.value is None and isinstance(op, (ast.Is, ast.IsNot, ast.Eq, ast.NotEq)):
                r = part_search(t.left)
                return (r, pol == isinstance(op, (ast.IsNot, ast.NotEq))) if r is not None else None
            if isinstance(rhs, ast.Constant) and rhs.value in (0, 1) and isinstance(t.left, ast.Call) and call_name_of(t.left) == "len":
                r = part_search(t.left)
                if r is None:
                    return None
                if (rhs.value == 0 and isinstance(op, (ast.Gt, ast.NotEq))) or (rhs.value == 1 and isinstance(op, ast.GtE)):
                    return r, pol
                if (rhs.value == 0 and isinstance(op, ast.Eq)) or (rhs.value == 1 and isinstance(op, ast.Lt)):
                    return r, not pol
                return None
            return None
        r = part_search(t)
        return (r, pol) if r is not None else None

    names = parts = names_stmt = parts_stmt = names_test = parts_test = None
    names_raise = parts_raise = False
    for st in walk_shallow(f.node):
        if isinstance(st, ast.If):
            # `if v in <names>:`
            m = in_test(st.test, is_v, lambda x: True, signed=True)
            if m is not None:
                r = string_collection(ctx, f, m[1])
                if r is not None:
                    if names is not None:
                        raise AnalysisError(f"{rid}: check_vname tests its parameter against several name tables (unrecognised)")
                    names, names_stmt = r[0], r[1] or st
                    br = hit_branch(st, m[2])
                    names_test, names_raise = st, (raises(br) if br else False)
            # `if <some part of P occurs in v>:` — any(d in v for d in P), next((d for d in P if d in v), None) is not None,
            # [d for d in P if d in v], also through a local that holds the search result
            ph = part_hit_test(st.test)
            if ph is not None:
                r, pol = ph
                parts, parts_stmt = r[0], r[1] or st
                br = hit_branch(st, pol)
                parts_test, parts_raise = st, (raises(br) if br else False)
        if isinstance(st, ast.For) and isinstance(st.target, ast.Name):
            r = string_collection(ctx, f, st.iter)
            if r is None:
                continue
            d = st.target.id
            for sub in st.body:
                m2 = in_test(sub.test, lambda x: isinstance(x, ast.Name) and x.id == d, is_v, signed=True) if isinstance(sub, ast.If) else None
                if m2 is not None:
                    parts, parts_stmt = r[0], r[1] or st
                    br = hit_branch(sub, m2[2])
                    parts_test, parts_raise = sub, (raises(br) if br else False)
    if names is None or parts is None:
        raise AnalysisError(f"{rid}: check_vname no longer has the recognised form `if v in <names>: raise` / "
                            f"`for d in <parts>: if d in v: raise`")
    # the parameter must not be re-bound before the tests
    for n in walk_shallow(f.node):
        if isinstance(n, ast.Name) and n.id == v and isinstance(n.ctx, ast.Store):
            raise AnalysisError(f"{rid}: check_vname re-binds its name parameter `{v}`")
    applied_in, applied_call = check_vname_is_applied(ctx, rid)
    return Reserved(f, names, parts, names_stmt, parts_stmt, names_test, parts_test, names_raise, parts_raise,
                    applied_in, applied_call)


def check_vname_is_applied(ctx, rid: str):
    """check_vname is called on every declared variable name of an operator template: a call inside a loop over the
    template's variables (the loop's iterable reads an attribute `variables`) whose first argument is the loop's name target,
    located in OperatorTemplate.apply or in a function apply reaches through the call graph (extracted private helper).
    Returns (OperatorTemplate.apply, call) — call is None when no such call exists."""
    f = ctx.repo.get_func(OPERATOR_REL, "OperatorTemplate.apply")
    target = ctx.repo.get_func(OPERATOR_REL, "check_vname")
    reach = ctx.cg.reachable([f])
    funcs = [g for g in sorted(reach, key=lambda x: (x is not f, x.qual)) if g.module is f.module]
    var_loops = {g: [l for l in walk_shallow(g.node) if isinstance(l, ast.For)
                     and any(isinstance(n, ast.Attribute) and n.attr == "variables" for n in ast.walk(l.iter))] for g in funcs}

    def applied(tgt, arg_index: int, depth: int):
        """A call of tgt whose argument `arg_index` is the name target of a loop over the template's variables — directly, or
        through a helper that hands one of its own parameters on."""
        for g in funcs:
            for call, targets, _how in ctx.cg.calls.get(g, ()):
                if tgt not in targets or len(call.args) <= arg_index or not isinstance(call.args[arg_index], ast.Name):
                    continue
                a = call.args[arg_index]
                for anc in _ancestors(call):
                    if anc in var_loops[g] and target_names(anc.target)[:1] == [a.id]:     # the variable's name comes first
                        return call
                params = [p for p in g.params if p != g.self_name]
                if depth < 2 and a.id in params and g is not f and not any(
                        isinstance(n, ast.Name) and n.id == a.id and isinstance(n.ctx, ast.Store) for n in walk_shallow(g.node)):
                    r = applied(g, params.index(a.id), depth + 1)
                    if r is not None:
                        return r
        return None
    call = applied(target, 0, 0)
    if call is None and not any(var_loops.values()):
        raise AnalysisError(f"{rid}: OperatorTemplate.apply no longer loops over the template's variables (unrecognised form)")
    return f, call


def _ancestors(n):
    p = parent(n)
    while p is not None:
        yield p
        p = parent(p)


# ------------------------------------------------------------------------------------------------
# key templates of a dict that is filled with generated names
# ------------------------------------------------------------------------------------------------

def key_templates(ctx, f, key_expr: ast.AST, depth: int = 0) -> List[Tuple[str, ast.AST]]:
    """Templates (text with ⟨hole⟩s, defining node) a dict-key expression may evaluate to.  Names are followed through
    their reaching definitions (plain assignments only)."""
    key_expr = expand_fstring(ctx, f, key_expr)
    t = fstring_template(key_expr)
    if t is None and isinstance(key_expr, ast.BinOp) and isinstance(key_expr.op, ast.Add):
        t = _concat_template(key_expr)
    if t is not None:
        return [(t, key_expr)]
    if isinstance(key_expr, ast.Name) and depth < 4:
        out = []
        defs = ctx.rd(f).defs_reaching(key_expr)
        for d in defs:
            v = assigned_value(d, key_expr.id)
            if v is None:
                out.append(("⟨" + key_expr.id + "⟩", key_expr))
            else:
                out += key_templates(ctx, f, v, depth + 1)
        if not defs:
            out.append(("⟨" + key_expr.id + "⟩", key_expr))
        return out
    if isinstance(key_expr, ast.IfExp):
        return key_templates(ctx, f, key_expr.body, depth + 1) + key_templates(ctx, f, key_expr.orelse, depth + 1)
    return [("⟨" + ast.unparse(key_expr) + "⟩", key_expr)]


def expand_fstring(ctx, f, node: ast.AST, depth: int = 0) -> ast.AST:
    """An f-string in which every hole that is a plain local name with exactly one reaching definition `name = <f-string or
    string literal>` is replaced by the parts of that definition (`suffix = f'_in{i}'; f'weight{suffix}'` -> f'weight_in{i}').
    The remaining hole expressions are the original nodes of the tree (reaching definitions can be asked for them).
    Other expressions are returned unchanged."""
    if not isinstance(node, ast.JoinedStr) or depth > 3:
        return node
    values: List[ast.AST] = []
    changed = False
    for v in node.values:
        if isinstance(v, ast.FormattedValue) and v.format_spec is None and v.conversion == -1 and isinstance(v.value, ast.Name):
            defs = ctx.rd(f).defs_reaching(v.value)
            val = assigned_value(defs[0], v.value.id) if len(defs) == 1 and not isinstance(defs[0], ast.arguments) else None
            if isinstance(val, ast.Constant) and isinstance(val.value, str):
                values.append(ast.Constant(value=val.value))
                changed = True
                continue
            if isinstance(val, ast.JoinedStr):
                values += list(expand_fstring(ctx, f, val, depth + 1).values)
                changed = True
                continue
        values.append(v)
    if not changed:
        return node
    merged: List[ast.AST] = []
    for v in values:
        if isinstance(v, ast.Constant) and merged and isinstance(merged[-1], ast.Constant):
            merged[-1] = ast.Constant(value=str(merged[-1].value) + str(v.value))
        else:
            merged.append(v)
    return ast.JoinedStr(values=merged)


def _concat_template(e: ast.AST) -> Optional[str]:
    """`var + '_buffer' + suffix` -> '⟨var⟩_buffer⟨suffix⟩' (string concatenation with at least one literal part)."""
    parts: List[str] = []
    literal = [False]

    def rec(x):
        if isinstance(x, ast.BinOp) and isinstance(x.op, ast.Add):
            rec(x.left)
            rec(x.right)
            return
        t = fstring_template(x)
        if t is not None:
            literal[0] = True
            parts.append(t)
        else:
            parts.append("⟨" + ast.unparse(x) + "⟩")
    rec(e)
    return "".join(parts) if literal[0] else None


def template_holes(node: ast.AST) -> List[ast.AST]:
    """Hole expressions of a constant / f-string / string concatenation."""
    if isinstance(node, ast.Constant):
        return []
    if isinstance(node, ast.JoinedStr):
        return [v.value for v in node.values if isinstance(v, ast.FormattedValue)]
    if isinstance(node, ast.BinOp) and isinstance(node.op, ast.Add):
        return template_holes(node.left) + template_holes(node.right)
    return [node]


def literal_pieces(template: str) -> List[str]:
    """Maximal literal pieces of a template (text between holes)."""
    out, cur, depth = [], "", 0
    for ch in template:
        if ch == "⟨":
            if depth == 0 and cur:
                out.append(cur)
            cur = "" if depth == 0 else cur
            depth += 1
        elif ch == "⟩":
            depth -= 1
        elif depth == 0:
            cur += ch
    if cur:
        out.append(cur)
    return out


def dict_key_exprs(f, dict_name: str) -> List[Tuple[ast.AST, ast.stmt]]:
    """All key expressions stored into the local dict `dict_name` inside function f: `D[k] = ...`, `D = {k: ...}`,
    `D.update({k: ...})`, `D.setdefault(k, ...)`."""
    out = []
    for st in walk_shallow(f.node):
        if isinstance(st, (ast.Assign, ast.AnnAssign)):
            targets = st.targets if isinstance(st, ast.Assign) else [st.target]
            for t in targets:
                if isinstance(t, ast.Subscript) and isinstance(t.value, ast.Name) and t.value.id == dict_name:
                    out.append((t.slice, st))
                if isinstance(t, ast.Name) and t.id == dict_name and isinstance(st.value, ast.Dict):
                    for k in st.value.keys:
                        if k is not None:
                            out.append((k, st))
                if isinstance(t, (ast.Tuple, ast.List)) and isinstance(st.value, (ast.Tuple, ast.List)) \
                        and len(t.elts) == len(st.value.elts):
                    for te, ve in zip(t.elts, st.value.elts):
                        if isinstance(te, ast.Name) and te.id == dict_name and isinstance(ve, ast.Dict):
                            for k in ve.keys:
                                if k is not None:
                                    out.append((k, st))
        if isinstance(st, ast.Call) and isinstance(st.func, ast.Attribute) and isinstance(st.func.value, ast.Name) \
                and st.func.value.id == dict_name:
            if st.func.attr == "update" and st.args and isinstance(st.args[0], ast.Dict):
                for k in st.args[0].keys:
                    if k is not None:
                        out.append((k, st))
            if st.func.attr == "setdefault" and st.args:
                out.append((st.args[0], st))
    return out


# ------------------------------------------------------------------------------------------------
# single-definition aliases
# ------------------------------------------------------------------------------------------------

class AliasRoot:
    """Result of alias_root: `expr` is the expression at the end of the alias chain (a Name when the chain ends at a
    parameter, a free name, a name with several definitions or a name whose definition is not a plain alias; `value` is
    then the expression assigned by `defstmt`, if any), `names` are the local names on the chain (incl. the root)."""

    def __init__(self, expr, names, defstmt, value, copied):
        self.expr, self.names, self.defstmt, self.value, self.copied = expr, names, defstmt, value, copied


def alias_root(ctx, f, e: ast.AST, wrappers=("tuple", "list"), depth: int = 8) -> AliasRoot:
    """Follow order-preserving re-packaging (`tuple(x)`, `list(x)`) and local names with exactly one reaching definition
    `a = b` back to the name that carries the original value."""
    rd = ctx.rd(f)
    names: List[str] = []
    copied = False
    for _ in range(depth):
        e2 = strip_wrappers(e, wrappers)
        copied = copied or (e2 is not e)
        e = e2
        if not (isinstance(e, ast.Name) and isinstance(e.ctx, ast.Load)):
            return AliasRoot(e, names, None, None, copied)
        names.append(e.id)
        defs = rd.defs_reaching(e)
        if len(defs) != 1 or isinstance(defs[0], ast.arguments):
            return AliasRoot(e, names, None, None, copied)
        v = assigned_value(defs[0], e.id)
        if v is None:
            return AliasRoot(e, names, defs[0], None, copied)
        v2 = strip_wrappers(v, wrappers)
        if isinstance(v2, ast.Name):
            copied = copied or (v2 is not v)
            e = v2
            continue
        return AliasRoot(e, names, defs[0], v, copied)
    return AliasRoot(e, names, None, None, copied)


# ------------------------------------------------------------------------------------------------
# abstract interpretation of list construction: which leading entries does a returned list have, under which flags?
# ------------------------------------------------------------------------------------------------

class Scalar:
    """A non-list value.  `key` identifies the value (two reads of the same un-rebound variable have the same key);
    `const` is the Python constant when the value is a literal."""
    __slots__ = ("key", "const", "is_const")

    def __init__(self, key, const=None, is_const=False):
        self.key, self.const, self.is_const = key, const, is_const

    def __repr__(self):
        return repr(self.const) if self.is_const else f"⟨{self.key}⟩"


class LVal:
    """A list whose leading entries `elems` are known; `open` = an unknown tail follows; `bad` = modified in a way that is
    not understood (nothing is known any more)."""
    __slots__ = ("elems", "open", "bad")

    def __init__(self, elems=None, open=False, bad=False):
        self.elems, self.open, self.bad = list(elems or []), open, bad

    def copy(self):
        return LVal(self.elems, self.open, self.bad)

    def __repr__(self):
        return ("BAD" if self.bad else "") + "[" + ", ".join(map(repr, self.elems)) + (", …" if self.open else "") + "]"


class Delegate:
    """The value returned by the same-named method of a parent class (`super().m(...)`)."""

    def __init__(self, call):
        self.call = call

    def __repr__(self):
        return "super()"


class _State:
    __slots__ = ("store", "facts")

    def __init__(self, store, facts):
        self.store, self.facts = store, facts

    def fork(self):
        memo: Dict[int, LVal] = {}
        store = {}
        for k, v in self.store.items():
            if isinstance(v, LVal):
                if id(v) not in memo:
                    memo[id(v)] = v.copy()
                store[k] = memo[id(v)]
            else:
                store[k] = v
        return _State(store, dict(self.facts))

    def assume(self, facts) -> bool:
        facts = list(facts)
        for k, b in list(facts):
            # None is falsy: "<x>∅" true implies <x> false, <x> true implies "<x>∅" false
            if k.endswith("∅") and b:
                facts.append((k[:-1], False))
            elif not k.endswith("∅") and b:
                facts.append((k + "∅", False))
        for k, b in facts:
            if self.facts.get(k, b) != b:
                return False
            self.facts[k] = b
        return True


LIST_MUTATORS = {"append", "extend", "insert", "pop", "remove", "sort", "reverse", "clear"}


def list_shapes(ctx, f, bindings: Optional[Dict[str, object]] = None, depth: int = 0, prefix: str = ""):
    """Abstractly execute every bounded path of function `f` (loops unrolled, each CFG node at most twice) tracking only the
    known leading entries of lists, aliases of scalars and the truth value of flags that were branched on.
    Returns a list of (facts: {key: bool}, value, store) per distinct outcome at a `return`; value is an LVal, a Scalar, a
    Delegate or None (function falls off its end / returns nothing)."""
    cfg = ctx.cfg(f)
    paths = bounded_paths(cfg, max_visits=2, limit=6000)
    interp = _ListInterp(ctx, f, depth, prefix)
    results = []
    seen = set()
    for path in paths:
        if path[-1][0] is not cfg.EXIT:
            continue
        store = {}
        for p in f.params:
            store[p] = (bindings or {}).get(p, Scalar(prefix + p))
        states = [_State(store, {})]
        for k, (node, labels) in enumerate(path):
            if k > 0:
                prev = path[k - 1][0]
                if isinstance(prev, (ast.If, ast.While)):
                    oc = branch_outcome(labels)
                    if oc is not None:
                        states = [s for s in states if s.assume(interp.truth_facts(prev.test, oc, s))]
            if isinstance(node, ast.Return):
                for s in states:
                    for s2, v in (interp.eval(node.value, s) if node.value is not None else [(s, None)]):
                        sig = (tuple(sorted(s2.facts.items())), repr(v),
                               tuple(sorted((k2, repr(v2)) for k2, v2 in s2.store.items() if isinstance(v2, Scalar))))
                        if sig not in seen:
                            seen.add(sig)
                            results.append((dict(s2.facts), v, s2.store))
                break
            states = [s2 for s in states for s2 in interp.step(s, node)]
            if not states:
                break
    return results


def module_constant(ctx, m, name: str, depth: int = 0) -> Optional[ast.Constant]:
    """The literal a module-level name is bound to (exactly one assignment; also through an import or another constant)."""
    if depth > 4 or m is None:
        return None
    if name in m.assigns:
        sts = m.assigns[name]
        v = assigned_value(sts[0], name) if len(sts) == 1 else None
        if isinstance(v, ast.Constant):
            return v
        if isinstance(v, ast.Name):
            return module_constant(ctx, m, v.id, depth + 1)
        return None
    if name in m.imports:
        src, sym = m.imports[name]
        if sym is not None and sym != "*":
            return module_constant(ctx, ctx.repo.modules.get(src), sym, depth + 1)
    return None


class _ListInterp:
    def __init__(self, ctx, f, depth, prefix):
        self.ctx, self.f, self.depth, self.prefix = ctx, f, depth, prefix

    # ---- keys / facts
    def fresh(self, node, hint="") -> Scalar:
        return Scalar(f"{self.prefix}{hint}@{getattr(node, 'lineno', 0)}:{getattr(node, 'col_offset', 0)}")

    def truth_facts(self, test, outcome: bool, s: _State):
        """[(key, bool)] implied by `test` evaluating to `outcome` (truthiness of names / attribute reads only)."""
        if isinstance(test, ast.UnaryOp) and isinstance(test.op, ast.Not):
            return self.truth_facts(test.operand, not outcome, s)
        if isinstance(test, ast.Call) and isinstance(test.func, ast.Name) and test.func.id == "bool" and len(test.args) == 1:
            return self.truth_facts(test.args[0], outcome, s)
        if isinstance(test, ast.BoolOp):
            if (isinstance(test.op, ast.And) and outcome) or (isinstance(test.op, ast.Or) and not outcome):
                return [x for v in test.values for x in self.truth_facts(v, outcome, s)]
            return []
        if isinstance(test, ast.Constant):
            return [] if bool(test.value) == outcome else [("⊥", True), ("⊥", False)]
        if isinstance(test, ast.Compare) and len(test.ops) == 1 and isinstance(test.ops[0], (ast.Is, ast.IsNot, ast.Eq, ast.NotEq)) \
                and isinstance(test.comparators[0], ast.Constant) and test.comparators[0].value is None \
                and isinstance(test.left, (ast.Name, ast.Attribute)):
            # `x is None`: recorded under the key "<x>∅"
            if isinstance(test.left, ast.Name):
                v = s.store.get(test.left.id)
                if isinstance(v, LVal):
                    return []
                key = v.key if isinstance(v, Scalar) else self.prefix + test.left.id
                if isinstance(v, Scalar) and v.is_const:
                    return [] if (v.const is None) == (outcome == isinstance(test.ops[0], (ast.Is, ast.Eq))) else [("⊥", True), ("⊥", False)]
            else:
                key = ast.unparse(test.left)
            return [(key + "∅", outcome == isinstance(test.ops[0], (ast.Is, ast.Eq)))]
        if isinstance(test, ast.Name):
            v = s.store.get(test.id)
            if isinstance(v, Scalar):
                if v.is_const:
                    return [] if bool(v.const) == outcome else [("⊥", True), ("⊥", False)]
                return [(v.key, outcome)]
            if isinstance(v, LVal):
                return []
            return [(self.prefix + test.id, outcome)] if test.id not in s.store else []
        if isinstance(test, ast.Attribute):
            return [(ast.unparse(test), outcome)]
        return []

    # ---- expressions: list of (state, value)
    def eval(self, e, s: _State):
        if isinstance(e, ast.Constant):
            return [(s, Scalar(repr(e.value), e.value, True))]
        if isinstance(e, ast.Name):
            if e.id in s.store:
                v = s.store[e.id]
                return [(s, v if v is not None else self.fresh(e, e.id))]
            c = module_constant(self.ctx, self.f.module, e.id)      # a named module-level literal
            if c is not None:
                return [(s, Scalar(repr(c.value), c.value, True))]
            return [(s, Scalar(self.prefix + e.id))]
        if isinstance(e, ast.Attribute):
            return [(s, Scalar(ast.unparse(e)))]
        if isinstance(e, (ast.List, ast.Tuple)):
            outs = [(s, LVal())]
            for i, el in enumerate(e.elts):
                new = []
                for s1, acc in outs:
                    if acc.open or acc.bad:
                        new.append((s1, acc))
                        continue
                    if isinstance(el, ast.Starred):
                        for s2, v in self.eval(el.value, s1):
                            a2 = acc.copy()
                            if isinstance(v, LVal) and not v.bad:
                                a2.elems += v.elems
                                a2.open = v.open
                            else:
                                a2.open = True
                            new.append((s2, a2))
                    else:
                        for s2, v in self.eval(el, s1):
                            a2 = acc.copy()
                            if isinstance(v, Scalar):
                                a2.elems.append(v)
                            else:
                                a2.elems.append(self.fresh(el, "elem"))
                            new.append((s2, a2))
                outs = new
            return outs
        if isinstance(e, ast.BinOp) and isinstance(e.op, ast.Add):
            outs = []
            for s1, l in self.eval(e.left, s):
                for s2, r in self.eval(e.right, s1):
                    if isinstance(l, LVal):
                        if l.open or l.bad:
                            outs.append((s2, l.copy()))
                        elif isinstance(r, LVal) and not r.bad:
                            outs.append((s2, LVal(l.elems + r.elems, r.open)))
                        else:
                            outs.append((s2, LVal(l.elems, True)))
                    elif isinstance(r, LVal):
                        outs.append((s2, LVal([], True)))
                    else:
                        outs.append((s2, self.fresh(e, "sum")))
            return outs
        if isinstance(e, ast.IfExp):
            outs = []
            for oc, branch in ((True, e.body), (False, e.orelse)):
                s1 = s.fork()
                if s1.assume(self.truth_facts(e.test, oc, s1)):
                    outs += self.eval(branch, s1)
            return outs
        if isinstance(e, ast.BoolOp) and isinstance(e.op, ast.Or):
            outs = []
            for v in e.values:
                outs += self.eval(v, s.fork())
            return outs
        if isinstance(e, (ast.ListComp, ast.GeneratorExp)):
            return [(s, LVal([], True))]
        if isinstance(e, ast.Subscript):
            if isinstance(e.slice, ast.Slice) and e.slice.lower is None and e.slice.upper is None and e.slice.step is None:
                return [(s1, v.copy() if isinstance(v, LVal) else self.fresh(e, "slice")) for s1, v in self.eval(e.value, s)]
            return [(s, self.fresh(e, "item"))]
        if isinstance(e, ast.Call):
            return self.eval_call(e, s)
        if isinstance(e, ast.NamedExpr):
            outs = []
            for s1, v in self.eval(e.value, s):
                if isinstance(e.target, ast.Name):
                    s1.store[e.target.id] = v
                outs.append((s1, v))
            return outs
        return [(s, self.fresh(e, "expr"))]

    def eval_call(self, e: ast.Call, s: _State):
        fn = e.func
        # order-preserving copies
        if isinstance(fn, ast.Name) and fn.id in ("list", "tuple", "copy", "deepcopy") and len(e.args) == 1 and not e.keywords:
            return [(s1, v.copy() if isinstance(v, LVal) else (LVal([], True) if fn.id in ("list", "tuple") else v))
                    for s1, v in self.eval(e.args[0], s)]
        if isinstance(fn, ast.Attribute) and fn.attr == "copy" and not e.args:
            return [(s1, v.copy() if isinstance(v, LVal) else self.fresh(e, "copy")) for s1, v in self.eval(fn.value, s)]
        # super().same_method(...)
        if isinstance(fn, ast.Attribute) and isinstance(fn.value, ast.Call) and isinstance(fn.value.func, ast.Name) \
                and fn.value.func.id == "super" and fn.attr == self.f.node.name:
            return [(s, Delegate(e))]
        # private helper of the repository: analyse the callee with the arguments bound
        if self.depth < 2:
            try:
                targets, how = self.ctx.cg.resolve_call(self.f, e)
            except Exception:
                targets, how = [], "unresolved"
            if len(targets) == 1 and how not in ("by-name", "constructor", "external") and targets[0] is not self.f:
                g = targets[0]
                outs = []
                bound_all = self._bind(g, e, s)
                if bound_all is not None:
                    memo = self.ctx.__dict__.setdefault("_c01_list_shape_memo", {})
                    for s1, bindings in bound_all:
                        mkey = (g.qual, self.depth, tuple(sorted((k, repr(v)) for k, v in bindings.items())))
                        if mkey not in memo:
                            try:
                                memo[mkey] = list_shapes(self.ctx, g, bindings, self.depth + 1, prefix=f"{g.qualname}:")
                            except AnalysisError:
                                memo[mkey] = None
                        sub = memo[mkey]
                        if not sub:
                            outs.append((s1, self.fresh(e, "call")))
                            continue
                        own = f"{g.qualname}:"
                        for facts, v, _store in sub:
                            s2 = s1.fork()
                            if not s2.assume([(k, b) for k, b in facts.items() if not k.startswith(own)]):
                                continue
                            if isinstance(v, LVal):
                                v = v.copy()
                            elif not isinstance(v, Scalar):
                                v = self.fresh(e, "call")
                            outs.append((s2, v))
                    if outs:
                        return outs
        return [(s, self.fresh(e, "call"))]

    def _bind(self, g, call: ast.Call, s: _State):
        """[(state, {param: value})] for the arguments of `call` bound to g's parameters; None when that is not possible."""
        a = g.node.args
        if a.vararg or a.kwarg or any(isinstance(x, ast.Starred) for x in call.args) or any(k.arg is None for k in call.keywords):
            return None
        params = [x.arg for x in a.posonlyargs + a.args]
        if g.cls is not None and not g.is_static and isinstance(call.func, ast.Attribute) and params:
            params = params[1:]
        exprs: Dict[str, ast.AST] = {}
        for p, x in zip(params, call.args):
            exprs[p] = x
        if len(call.args) > len(params):
            return None
        for k in call.keywords:
            exprs[k.arg] = k.value
        outs = [(s, {})]
        for p, x in exprs.items():
            new = []
            for s1, b in outs:
                for s2, v in self.eval(x, s1):
                    b2 = dict(b)
                    b2[p] = v
                    new.append((s2, b2))
            outs = new
            if len(outs) > 16:
                return None
        return outs

    # ---- statements: list of successor states
    def step(self, s: _State, node):
        if isinstance(node, ast.Assign):
            outs = []
            for s1, v in self.eval(node.value, s):
                for t in node.targets:
                    self.bind(s1, t, v, node.value, node)
                outs.append(s1)
            return outs
        if isinstance(node, ast.AnnAssign):
            if node.value is None:
                return [s]
            outs = []
            for s1, v in self.eval(node.value, s):
                self.bind(s1, node.target, v, node.value, node)
                outs.append(s1)
            return outs
        if isinstance(node, ast.AugAssign):
            if isinstance(node.target, ast.Name):
                cur = s.store.get(node.target.id)
                if isinstance(cur, LVal) and isinstance(node.op, ast.Add):
                    outs = []
                    for s1, v in self.eval(node.value, s):
                        c = s1.store.get(node.target.id)
                        self.extend(c, v)
                        outs.append(s1)
                    return outs
                s.store[node.target.id] = self.fresh(node, node.target.id)
            elif isinstance(node.target, ast.Subscript):
                self.taint(s, node.target.value)
            return [s]
        if isinstance(node, ast.Expr) and isinstance(node.value, ast.Call):
            c = node.value
            if isinstance(c.func, ast.Attribute) and isinstance(c.func.value, ast.Name) and c.func.attr in LIST_MUTATORS:
                recv = s.store.get(c.func.value.id)
                if isinstance(recv, LVal):
                    if c.func.attr == "append" and len(c.args) == 1:
                        outs = []
                        for s1, v in self.eval(c.args[0], s):
                            r = s1.store[c.func.value.id]
                            if not r.open:
                                r.elems.append(v if isinstance(v, Scalar) else self.fresh(c, "elem"))
                            outs.append(s1)
                        return outs
                    if c.func.attr == "extend" and len(c.args) == 1:
                        outs = []
                        for s1, v in self.eval(c.args[0], s):
                            self.extend(s1.store[c.func.value.id], v)
                            outs.append(s1)
                        return outs
                    if c.func.attr == "insert" and len(c.args) == 2 and isinstance(c.args[0], ast.Constant) \
                            and isinstance(c.args[0].value, int) and 0 <= c.args[0].value <= len(recv.elems):
                        outs = []
                        for s1, v in self.eval(c.args[1], s):
                            r = s1.store[c.func.value.id]
                            r.elems.insert(c.args[0].value, v if isinstance(v, Scalar) else self.fresh(c, "elem"))
                            outs.append(s1)
                        return outs
                    recv.bad = True
                elif isinstance(recv, Delegate):
                    s.store[c.func.value.id] = LVal(bad=True)       # the parent's list is modified afterwards: not understood
            return [s]
        if isinstance(node, (ast.For, ast.AsyncFor)):
            for nm in target_names(node.target):
                s.store[nm] = self.fresh(node, nm)
            return [s]
        if isinstance(node, (ast.With, ast.AsyncWith)):
            for it in node.items:
                if it.optional_vars is not None:
                    for nm in target_names(it.optional_vars):
                        s.store[nm] = self.fresh(node, nm)
            return [s]
        if isinstance(node, ast.ExceptHandler):
            if node.name:
                s.store[node.name] = self.fresh(node, node.name)
            return [s]
        if isinstance(node, ast.Delete):
            for t in node.targets:
                if isinstance(t, ast.Name):
                    s.store.pop(t.id, None)
                elif isinstance(t, ast.Subscript):
                    self.taint(s, t.value)
            return [s]
        if isinstance(node, (ast.FunctionDef, ast.AsyncFunctionDef, ast.ClassDef)):
            s.store[node.name] = self.fresh(node, node.name)
            return [s]
        return [s]

    def extend(self, recv, v):
        if not isinstance(recv, LVal) or recv.open:
            return
        if isinstance(v, LVal) and not v.bad:
            recv.elems += v.elems
            recv.open = v.open
        else:
            recv.open = True

    def taint(self, s: _State, e):
        if isinstance(e, ast.Name) and isinstance(s.store.get(e.id), LVal):
            s.store[e.id].bad = True
        elif isinstance(e, ast.Name) and isinstance(s.store.get(e.id), Delegate):
            s.store[e.id] = LVal(bad=True)

    def bind(self, s: _State, target, v, value_expr, node):
        if isinstance(target, ast.Name):
            if isinstance(v, LVal):
                # `a = b` shares the list object, anything else creates a new one
                s.store[target.id] = v if isinstance(value_expr, ast.Name) else v.copy()
            elif isinstance(v, Scalar):
                s.store[target.id] = v if isinstance(value_expr, (ast.Name, ast.Constant, ast.Attribute, ast.IfExp, ast.BoolOp)) \
                    else self.fresh(node, target.id)
            else:
                s.store[target.id] = v if isinstance(v, Delegate) else self.fresh(node, target.id)
        elif isinstance(target, (ast.Tuple, ast.List)):
            if isinstance(value_expr, (ast.Tuple, ast.List)) and len(value_expr.elts) == len(target.elts) \
                    and not any(isinstance(x, ast.Starred) for x in list(value_expr.elts) + list(target.elts)):
                vals = [self.eval(x, s) for x in value_expr.elts]
                for t, alts in zip(target.elts, vals):
                    if len(alts) == 1:
                        self.bind(s, t, alts[0][1], None, node)
                    else:
                        for nm in target_names(t):
                            s.store[nm] = self.fresh(node, nm)
            else:
                for nm in target_names(target):
                    s.store[nm] = self.fresh(node, nm)
        elif isinstance(target, ast.Subscript):
            self.taint(s, target.value)



def reserved_table_concat_hits(ctx):
    """Lost-comma lint (rules/_strconcat_lint) on the constant string tables of check_vname's module: elements written as two
    adjacent literals fold into one entry, so neither name is reserved any more.  -> [(function or None, node, folded value, tokens)]"""
    from ._strconcat_lint import implicit_concats, is_string_table, self_check
    self_check("reserved-name tables")
    f = ctx.repo.get_func(OPERATOR_REL, "check_vname")
    m = f.module
    out = []
    seen = set()
    for scope, root in ((f, f.node), (None, m.tree)):
        nodes = ast.walk(root) if scope is not None else [st.value for st in m.tree.body if isinstance(st, ast.Assign)]
        for n in nodes:
            if is_string_table(n) and id(n) not in seen:
                seen.add(id(n))
                for e, toks in implicit_concats(m.source, n):
                    out.append((scope, e, e.value, toks))
    return out
