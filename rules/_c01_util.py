"""Helpers shared by rules/c01.py and rules/c05.py (bounded path enumeration, name scoping, membership-test facts,
reader for check_vname's reserved vocabulary, f-string key templates)."""
from __future__ import annotations

import ast
from typing import Dict, Iterable, List, Optional, Set, Tuple

from engine import AnalysisError
from engine.cfg import CFG
from engine.dataflow import target_names, assigned_value
from engine.srcmodel import walk_shallow, parent
from engine.util import contains, fstring_template

OPERATOR_REL = "pyrates/frontend/template/operator.py"


# ------------------------------------------------------------------------------------------------
# names and scopes
# ------------------------------------------------------------------------------------------------

def bound_by_inner_scope(name_node: ast.Name, within: ast.AST) -> bool:
    """Is this Name load bound by a comprehension / lambda that lies inside `within` (so it does not read the
    function-level variable of the same name)?"""
    p = parent(name_node)
    while p is not None and p is not within:
        if isinstance(p, (ast.ListComp, ast.SetComp, ast.DictComp, ast.GeneratorExp)):
            for k, g in enumerate(p.generators):
                if name_node.id in target_names(g.target):
                    # the iterable of the first generator is evaluated in the enclosing scope
                    if not (k == 0 and contains(g.iter, name_node)):
                        return True
        if isinstance(p, ast.Lambda):
            a = p.args
            names = [x.arg for x in a.posonlyargs + a.args + a.kwonlyargs]
            if a.vararg:
                names.append(a.vararg.arg)
            if a.kwarg:
                names.append(a.kwarg.arg)
            if name_node.id in names:
                return True
        p = parent(p)
    return False


def loads(node: ast.AST) -> List[ast.Name]:
    return [n for n in ast.walk(node) if isinstance(n, ast.Name) and isinstance(n.ctx, ast.Load)]


def load_ids(node: ast.AST) -> Set[str]:
    return {n.id for n in loads(node)}


def strip_wrappers(e: ast.AST, wrappers=("tuple", "list")) -> ast.AST:
    """tuple(x) / list(x) -> x (order-preserving re-packaging)."""
    while isinstance(e, ast.Call) and isinstance(e.func, ast.Name) and e.func.id in wrappers and len(e.args) == 1 \
            and not e.keywords:
        e = e.args[0]
    return e


# ------------------------------------------------------------------------------------------------
# bounded path enumeration (loops unrolled: every CFG node at most `max_visits` times)
# ------------------------------------------------------------------------------------------------

def bounded_paths(cfg: CFG, *, max_visits: int = 2, limit: int = 4000):
    """All paths ENTRY -> EXIT/RAISE in which no node occurs more than `max_visits` times.

    A path is a list of (node, labels_of_edge_taken_from_previous_node); the first element is (ENTRY, frozenset()).
    With max_visits=2 a `while` header may be evaluated twice: enter the body once, come back, leave."""
    out = []
    stack = [(cfg.ENTRY, [(cfg.ENTRY, frozenset())], {cfg.ENTRY: 1})]
    while stack:
        n, path, seen = stack.pop()
        if n is cfg.EXIT or n is cfg.RAISE:
            out.append(path)
            if len(out) > limit:
                raise AnalysisError(f"path explosion (> {limit} paths) in {getattr(cfg.func, 'name', '?')}")
            continue
        for s in cfg.g.successors(n):
            c = seen.get(s, 0)
            if c >= max_visits:
                continue
            labels = frozenset(cfg.g[n][s]["labels"])
            seen2 = dict(seen)
            seen2[s] = c + 1
            stack.append((s, path + [(s, labels)], seen2))
    return out


def branch_outcome(labels: Iterable[str]) -> Optional[bool]:
    """Outcome of the test of an If/While header given the labels of the edge leaving it."""
    labels = set(labels)
    if labels & {"true"} and not labels & {"false"}:
        return True
    if labels & {"false"} and not labels & {"true"}:
        return False
    return None


def membership_facts(test: ast.AST, outcome: bool) -> List[Tuple[str, str, bool]]:
    """Facts (name, table_text, is_member) implied by `test` evaluating to `outcome`.

    Understands `x in T`, `x not in T`, `not <t>`, `a and b` (when true), `a or b` (when false)."""
    if isinstance(test, ast.UnaryOp) and isinstance(test.op, ast.Not):
        return membership_facts(test.operand, not outcome)
    if isinstance(test, ast.BoolOp):
        if isinstance(test.op, ast.And) and outcome:
            return [f for v in test.values for f in membership_facts(v, True)]
        if isinstance(test.op, ast.Or) and not outcome:
            return [f for v in test.values for f in membership_facts(v, False)]
        return []
    if isinstance(test, ast.Compare) and len(test.ops) == 1 and isinstance(test.left, ast.Name):
        op = test.ops[0]
        table = test.comparators[0]
        if isinstance(op, ast.In):
            return [(test.left.id, _table_text(table), outcome)]
        if isinstance(op, ast.NotIn):
            return [(test.left.id, _table_text(table), not outcome)]
    return []


def _table_text(e: ast.AST) -> str:
    # `T`, `T.keys()`, `list(T)`, `set(T)` all denote membership in T's keys
    while True:
        if isinstance(e, ast.Call) and isinstance(e.func, ast.Attribute) and e.func.attr == "keys" and not e.args:
            e = e.func.value
            continue
        if isinstance(e, ast.Call) and isinstance(e.func, ast.Name) and e.func.id in ("list", "set", "tuple", "frozenset") \
                and len(e.args) == 1:
            e = e.args[0]
            continue
        break
    return ast.unparse(e)


# ------------------------------------------------------------------------------------------------
# check_vname: the vocabulary a user may not use
# ------------------------------------------------------------------------------------------------

class Reserved:
    """check_vname's vocabulary.  `names` / `parts` are *effective* only when the corresponding test raises and check_vname
    is applied to every declared variable name; otherwise they are empty (the raw tables stay in raw_names / raw_parts)."""

    def __init__(self, f, raw_names, raw_parts, names_stmt, parts_stmt, names_test, parts_test, names_raise, parts_raise,
                 applied_in, applied_call):
        self.f = f
        self.raw_names, self.raw_parts = set(raw_names), list(raw_parts)
        self.names_stmt, self.parts_stmt = names_stmt, parts_stmt
        self.names_test, self.parts_test = names_test, parts_test
        self.names_raise, self.parts_raise = names_raise, parts_raise
        self.applied_in, self.applied_call = applied_in, applied_call
        ok = applied_call is not None
        self.names: Set[str] = set(raw_names) if (names_raise and ok) else set()
        self.parts: List[str] = list(raw_parts) if (parts_raise and ok) else []

    def why(self, literal: str) -> Optional[str]:
        """Reason why no user variable can carry a name that contains `literal` as a contiguous piece (None if it can)."""
        for p in self.parts:
            if p in literal:
                return f"contains the reserved sub-string '{p}'"
        return None

    def why_exact(self, name: str) -> Optional[str]:
        if name in self.names:
            return f"'{name}' is a reserved name"
        return self.why(name)


def read_reserved(ctx, rid: str) -> Reserved:
    """Read the reserved names / name parts from check_vname *by structure*: a list L with `if v in L: <raise>` and a list P
    with `for d in P: if d in v: <raise>` where v is the function's first parameter; and find the call that applies
    check_vname to every declared variable name (OperatorTemplate.apply)."""
    f = ctx.repo.get_func(OPERATOR_REL, "check_vname")
    if not f.params:
        raise AnalysisError(f"{rid}: check_vname has no parameter")
    v = f.params[0]
    lists: Dict[str, Tuple[List[str], ast.stmt]] = {}
    for st in f.node.body:
        if isinstance(st, ast.Assign) and len(st.targets) == 1 and isinstance(st.targets[0], ast.Name) \
                and isinstance(st.value, (ast.List, ast.Tuple, ast.Set)):
            vals = [e.value for e in st.value.elts if isinstance(e, ast.Constant) and isinstance(e.value, str)]
            if len(vals) == len(st.value.elts):
                lists[st.targets[0].id] = (vals, st)

    def raises(body) -> bool:
        return bool(body) and isinstance(body[-1], ast.Raise)

    names = parts = names_stmt = parts_stmt = names_test = parts_test = None
    names_raise = parts_raise = False
    for st in f.node.body:
        if isinstance(st, ast.If) and isinstance(st.test, ast.Compare) and len(st.test.ops) == 1 \
                and isinstance(st.test.ops[0], ast.In) and isinstance(st.test.left, ast.Name) and st.test.left.id == v \
                and isinstance(st.test.comparators[0], ast.Name) and st.test.comparators[0].id in lists:
            names, names_stmt = lists[st.test.comparators[0].id]
            names_test, names_raise = st, raises(st.body)
        if isinstance(st, ast.For) and isinstance(st.iter, ast.Name) and st.iter.id in lists and isinstance(st.target, ast.Name):
            d = st.target.id
            for sub in st.body:
                if isinstance(sub, ast.If) and isinstance(sub.test, ast.Compare) and len(sub.test.ops) == 1 \
                        and isinstance(sub.test.ops[0], ast.In) and isinstance(sub.test.left, ast.Name) and sub.test.left.id == d \
                        and isinstance(sub.test.comparators[0], ast.Name) and sub.test.comparators[0].id == v:
                    parts, parts_stmt = lists[st.iter.id]
                    parts_test, parts_raise = sub, raises(sub.body)
    if names is None or parts is None:
        raise AnalysisError(f"{rid}: check_vname no longer has the recognised form `if v in <names>: raise` / "
                            f"`for d in <parts>: if d in v: raise`")
    # the parameter must not be re-bound before the tests
    for n in walk_shallow(f.node):
        if isinstance(n, ast.Name) and n.id == v and isinstance(n.ctx, ast.Store):
            raise AnalysisError(f"{rid}: check_vname re-binds its name parameter `{v}`")
    applied_in, applied_call = check_vname_is_applied(ctx, rid)
    return Reserved(f, names, parts, names_stmt, parts_stmt, names_test, parts_test, names_raise, parts_raise,
                    applied_in, applied_call)


def check_vname_is_applied(ctx, rid: str):
    """check_vname is called on every declared variable name of an operator template: a call inside a loop over the
    template's variables in OperatorTemplate.apply whose first argument is the loop's name target.
    Returns (function, call) — call is None when no such call exists."""
    f = ctx.repo.get_func(OPERATOR_REL, "OperatorTemplate.apply")
    target = ctx.repo.get_func(OPERATOR_REL, "check_vname")
    var_loops = [l for l in walk_shallow(f.node) if isinstance(l, ast.For) and "variables" in ast.unparse(l.iter)]
    if not var_loops:
        raise AnalysisError(f"{rid}: OperatorTemplate.apply no longer loops over the template's variables (unrecognised form)")
    for call, targets, _how in ctx.cg.calls.get(f, ()):
        if target in targets and call.args and isinstance(call.args[0], ast.Name):
            for a in _ancestors(call):
                if a in var_loops and call.args[0].id in target_names(a.target):
                    return f, call
    return f, None


def _ancestors(n):
    p = parent(n)
    while p is not None:
        yield p
        p = parent(p)


# ------------------------------------------------------------------------------------------------
# key templates of a dict that is filled with generated names
# ------------------------------------------------------------------------------------------------

def key_templates(ctx, f, key_expr: ast.AST, depth: int = 0) -> List[Tuple[str, ast.AST]]:
    """Templates (text with ⟨hole⟩s, defining node) a dict-key expression may evaluate to.  Names are followed through
    their reaching definitions (plain assignments only)."""
    t = fstring_template(key_expr)
    if t is None and isinstance(key_expr, ast.BinOp) and isinstance(key_expr.op, ast.Add):
        t = _concat_template(key_expr)
    if t is not None:
        return [(t, key_expr)]
    if isinstance(key_expr, ast.Name) and depth < 4:
        out = []
        defs = ctx.rd(f).defs_reaching(key_expr)
        for d in defs:
            v = assigned_value(d, key_expr.id)
            if v is None:
                out.append(("⟨" + key_expr.id + "⟩", key_expr))
            else:
                out += key_templates(ctx, f, v, depth + 1)
        if not defs:
            out.append(("⟨" + key_expr.id + "⟩", key_expr))
        return out
    if isinstance(key_expr, ast.IfExp):
        return key_templates(ctx, f, key_expr.body, depth + 1) + key_templates(ctx, f, key_expr.orelse, depth + 1)
    return [("⟨" + ast.unparse(key_expr) + "⟩", key_expr)]


def _concat_template(e: ast.AST) -> Optional[str]:
    """`var + '_buffer' + suffix` -> '⟨var⟩_buffer⟨suffix⟩' (string concatenation with at least one literal part)."""
    parts: List[str] = []
    literal = [False]

    def rec(x):
        if isinstance(x, ast.BinOp) and isinstance(x.op, ast.Add):
            rec(x.left)
            rec(x.right)
            return
        t = fstring_template(x)
        if t is not None:
            literal[0] = True
            parts.append(t)
        else:
            parts.append("⟨" + ast.unparse(x) + "⟩")
    rec(e)
    return "".join(parts) if literal[0] else None


def template_holes(node: ast.AST) -> List[ast.AST]:
    """Hole expressions of a constant / f-string / string concatenation."""
    if isinstance(node, ast.Constant):
        return []
    if isinstance(node, ast.JoinedStr):
        return [v.value for v in node.values if isinstance(v, ast.FormattedValue)]
    if isinstance(node, ast.BinOp) and isinstance(node.op, ast.Add):
        return template_holes(node.left) + template_holes(node.right)
    return [node]


def literal_pieces(template: str) -> List[str]:
    """Maximal literal pieces of a template (text between holes)."""
    out, cur, depth = [], "", 0
    for ch in template:
        if ch == "⟨":
            if depth == 0 and cur:
                out.append(cur)
            cur = "" if depth == 0 else cur
            depth += 1
        elif ch == "⟩":
            depth -= 1
        elif depth == 0:
            cur += ch
    if cur:
        out.append(cur)
    return out


def dict_key_exprs(f, dict_name: str) -> List[Tuple[ast.AST, ast.stmt]]:
    """All key expressions stored into the local dict `dict_name` inside function f: `D[k] = ...`, `D = {k: ...}`,
    `D.update({k: ...})`, `D.setdefault(k, ...)`."""
    out = []
    for st in walk_shallow(f.node):
        if isinstance(st, (ast.Assign, ast.AnnAssign)):
            targets = st.targets if isinstance(st, ast.Assign) else [st.target]
            for t in targets:
                if isinstance(t, ast.Subscript) and isinstance(t.value, ast.Name) and t.value.id == dict_name:
                    out.append((t.slice, st))
                if isinstance(t, ast.Name) and t.id == dict_name and isinstance(st.value, ast.Dict):
                    for k in st.value.keys:
                        if k is not None:
                            out.append((k, st))
                if isinstance(t, (ast.Tuple, ast.List)) and isinstance(st.value, (ast.Tuple, ast.List)) \
                        and len(t.elts) == len(st.value.elts):
                    for te, ve in zip(t.elts, st.value.elts):
                        if isinstance(te, ast.Name) and te.id == dict_name and isinstance(ve, ast.Dict):
                            for k in ve.keys:
                                if k is not None:
                                    out.append((k, st))
        if isinstance(st, ast.Call) and isinstance(st.func, ast.Attribute) and isinstance(st.func.value, ast.Name) \
                and st.func.value.id == dict_name:
            if st.func.attr == "update" and st.args and isinstance(st.args[0], ast.Dict):
                for k in st.args[0].keys:
                    if k is not None:
                        out.append((k, st))
            if st.func.attr == "setdefault" and st.args:
                out.append((st.args[0], st))
    return out
