"""C07 — parameter and initial-value overrides reach exactly their targets (DESIGN §4 C07)."""
from __future__ import annotations

import ast

from engine import AnalysisError
from engine.srcmodel import walk_shallow, norm
from engine.util import call_name, contains
from engine.effects import analyse, fmt_origin
from engine.dataflow import assigned_value

PROPERTY = "C07"
FC = "pyrates/frontend/template/circuit.py"
FO = "pyrates/frontend/template/operator.py"
FG = "pyrates/frontend/template/operator_graph.py"
FP = "pyrates/frontend/template/population.py"

EXPLANATION = (
    "That compiled arguments show exactly the overridden values is not decidable statically.  Decided with the alias-tracking effect "
    "analysis (engine/effects.py): R1 *shared template state is only written on a private copy* - CircuitTemplate.update_var may "
    "write only containers owned by this template instance (stores into self.nodes / self.circuits / self.edges / self._edge_map, access "
    "path of length one); any deeper write (into a node template, a sub-circuit, an edge-attribute dictionary - objects that are "
    "shared with other templates) is a violation; every call that resolves to OperatorGraphTemplate.update_var has a receiver whose "
    "origin is fresh (deepcopy).  R2 *compiling a template does not write into it*: apply() of every template class "
    "(CircuitTemplate, OperatorGraphTemplate incl. Node/EdgeTemplate, OperatorTemplate, PopulationTemplate) mutates nothing reachable "
    "from template content (nodes, circuits, edges, operators, variables, equations, populations, connections); bookkeeping attributes "
    "(_ir, _vectorization_*) and the class-level operator cache are exempt; OperatorTemplate.apply may fill defaults into its `values` "
    "argument, so every caller must hand it a dictionary that does not alias template state.  R3 per-node array values are indexed "
    "by the enumerate counter of the same target_nodes list whose length the array size was compared with (update_var and apply).  "
    "R4 update_var(edge_vars) selects the edge to replace by identity with the tuple registered for (source, target, idx), never by "
    "value (equal parallel edges are legal).  NOT decided: the values themselves, ordering of wildcard expansion (C06), aliases created by storing references inside objects."
)
RULE_TEXT = "instances = mutating/compiling entry points of the template classes; verdict from transitive mutation summaries with alias tracking"
ASSUMPTIONS = ["copy.deepcopy shares nothing mutable; template constructors return fresh objects."]

OWNED = {(".nodes",), (".circuits",), (".edges",), ("._edge_map",), (".name",), (".path",), (".__doc__",)}
BOOKKEEPING_PREFIX = ("._ir", "._state_var_indices", "._state_var_values", "._vectorization_labels", "._vectorization_indices",
                      "._depth", ".cache")


def r1_update_var_writes_private_state(ctx, rid):
    eff = ctx.effects
    f = ctx.repo.get_func(FC, "CircuitTemplate.update_var")
    evs = eff.events_of(f, None)
    bad = []
    for e in evs:
        o = e.origin
        if o[0] != "P" or o[1] != f.self_name:
            continue
        if not o[2] or o[2] in OWNED or o[2][0] in BOOKKEEPING_PREFIX:
            continue
        bad.append(e)
    # a write that goes through `<local>.update_var(...)` of a node template inside update_var itself is the receiver clause's
    # business (below): it is fine on a fresh copy and, for copy disciplines that re-use copies, decided by C17-R8; the effect summary
    # cannot tell a licensed in-place write from an unlicensed one, so those events are held back until that verdict is in
    def via_template_update(e):
        st = e.stmt
        return isinstance(st, ast.stmt) and any(isinstance(c, ast.Call) and isinstance(c.func, ast.Attribute) and c.func.attr == "update_var"
                                                and not (isinstance(c.func.value, ast.Name) and c.func.value.id == f.self_name)
                                                for c in ast.walk(st))
    held = [e for e in bad if via_template_update(e)]
    bad = [e for e in bad if not via_template_update(e)]
    if bad:
        seen = set()
        for e in bad:
            if (id(e.stmt), e.origin) in seen:
                continue
            seen.add((id(e.stmt), e.origin))
            ctx.violation(rid, f, e.stmt, f"update_var writes into `{fmt_origin(e.origin)}`, an object that can be shared with other nodes/"
                                          f"templates (only this instance's own node/circuit/edge containers may be re-bound): {e.how}",
                          {"mutated": fmt_origin(e.origin), "via": list(e.via)})
    else:
        ctx.ok(rid, f, f.node, "update_var only re-binds entries of containers owned by this template instance",
               {"mutates": sorted(p + "".join(path) for p, path in eff.mutates(f, None))}, label="update_var effect")
    # add_node_template (the helper that re-registers the updated template) must not write into a shared sub-circuit
    g = ctx.repo.get_func(FC, "CircuitTemplate.add_node_template")
    from .c14 import _is_derived_private_state
    deep = [e for e in eff.events_of(g, None) if e.origin[0] == "P" and e.origin[1] == g.self_name and len(e.origin[2]) > 1
            and not _is_derived_private_state(ctx, g.cls, e.origin[2][-1])]        # e.g. an ownership record emptied on hand-over
    if deep:
        for e in deep[:3]:
            ctx.violation(rid, g, e.stmt, f"add_node_template writes into `{fmt_origin(e.origin)}` (a sub-circuit template that may be shared): {e.how}")
    else:
        ctx.ok(rid, g, g.node, "add_node_template writes only this instance's own node/circuit dictionaries (sub-circuits are re-derived first)",
               label="add_node_template effect")
    # receivers of OperatorGraphTemplate.update_var
    target = ctx.repo.get_func(FG, "OperatorGraphTemplate.update_var")
    sites = ctx.cg.call_sites_of(target)
    n = 0
    delegated = []
    for caller, call in sites:
        if not isinstance(call.func, ast.Attribute) or call.func.attr != "update_var":
            continue
        how = ctx.cg.resolve_call(caller, call)[1]
        an = analyse(eff, caller, None)
        orig = an.origins(call.func.value)
        if how == "by-name" and not (orig and all(o[0] == "F" for o in orig)):
            continue        # receiver of unknown class: only a write into a provably fresh object can be decided (it is fine whatever the class)
        n += 1
        if orig and all(o[0] == "F" for o in orig):
            ctx.ok(rid, caller, call, "node/edge template is updated on a fresh deep copy", {"receiver": sorted(fmt_origin(o) for o in orig)})
        elif caller.qualname == "CircuitTemplate.update_var":
            # the receiver is not (only) a copy made on this path: a copy discipline that re-uses copies made earlier (per-call registry
            # tested by `id(x) in R`, copy-on-write with an ownership record) or no copy at all.  Whether the written object is held by
            # this node alone is the statement of C17-R8 (licensed in-place writes; ownership dropped on hand-over; a write into a
            # looked-up template without licence is its violation) - decided there, reported under this rule
            delegated.append(call)
        else:
            ctx.violation(rid, caller, call, f"`{ast.unparse(call.func.value)}.update_var(...)` writes a value into a node/edge template whose "
                                             f"origin is {sorted(fmt_origin(o) for o in orig)}: templates are shared between nodes, so the "
                                             f"override would reach every node using it", {"receiver": sorted(fmt_origin(o) for o in orig)})
    n_viol = sum(1 for o in ctx.obs if o.status == "violation")
    if delegated or held:
        from .c17 import r8_override_written_into_unshared_copy
        r8_override_written_into_unshared_copy(ctx, rid)
    if held and sum(1 for o in ctx.obs if o.status == "violation") == n_viol:
        ctx.ok(rid, f, held[0].stmt, "in-place writes of re-used node templates are licensed (C17-R8: registry test / ownership record dropped "
                                     "on hand-over)", {"statements": sorted({norm(e.stmt)[:80] for e in held})}, label="licensed in-place writes")
    if n < 1:
        raise AnalysisError(f"{rid}: no resolved call site of OperatorGraphTemplate.update_var found")


APPLY_METHODS = [(FC, "CircuitTemplate.apply"), (FG, "OperatorGraphTemplate.apply"), (FO, "OperatorTemplate.apply"),
                 (FP, "PopulationTemplate.apply"), (FC, "CircuitTemplate._apply_nodes"), (FC, "CircuitTemplate._apply_edge"),
                 (FC, "CircuitTemplate._apply_populations_and_connections"), (FC, "CircuitTemplate._group_edges")]


def r2_apply_does_not_write_template(ctx, rid):
    eff = ctx.effects
    for rel, q in APPLY_METHODS:
        f = ctx.repo.get_func(rel, q)
        bad = []
        for e in eff.events_of(f, None):
            o = e.origin
            if o[0] != "P":
                continue
            if o[1] == f.self_name:
                if o[2] and o[2][0] not in BOOKKEEPING_PREFIX:
                    bad.append(e)
            elif o[1] in ("edge", "template", "node", "op", "pop", "conn"):
                if o[2]:
                    bad.append(e)
        if bad:
            seen = set()
            for e in bad:
                if (id(e.stmt), e.origin) in seen:
                    continue
                seen.add((id(e.stmt), e.origin))
                ctx.violation(rid, f, e.stmt, f"{q} (compiling a template) writes into template content `{fmt_origin(e.origin)}`: values "
                                              f"given for one node/compilation would stay in the template and reach every node sharing it: {e.how}",
                              {"mutated": fmt_origin(e.origin), "via": list(e.via)})
        else:
            ctx.ok(rid, f, f.node, "no write into template content (bookkeeping attributes and the operator cache excepted)",
                   {"mutates": sorted(p + "".join(path) for p, path in eff.mutates(f, None))}, label=f"{q} effect")
    # OperatorTemplate.apply fills defaults into `values`: every caller must pass a dict that does not alias template state
    target = ctx.repo.get_func(FO, "OperatorTemplate.apply")
    if ("values", ()) not in eff.mutates(target, None):
        ctx.info(rid, target, target.node, "OperatorTemplate.apply no longer fills defaults into its `values` argument")
    n = 0
    for caller, call in ctx.cg.call_sites_of(target):
        targets, how = ctx.cg.resolve_call(caller, call)
        if how == "by-name":
            # receiver class unknown: keep the site only if the keywords used fit no other candidate's signature
            kws = {k.arg for k in call.keywords if k.arg}
            fitting = [t for t in targets if kws <= set(t.params)]
            if fitting != [target]:
                continue
        kw = {k.arg: k.value for k in call.keywords}
        v = kw.get("values")
        if v is None:
            continue
        n += 1
        an = analyse(eff, caller, None)
        orig = an.origins(v)
        aliased = [o for o in orig if o[0] in ("P", "G")]
        if aliased:
            ctx.violation(rid, caller, call, f"the dictionary handed to OperatorTemplate.apply(values=...) aliases "
                                             f"{sorted(fmt_origin(o) for o in aliased)}; apply() fills every default into it",
                          {"values_origins": sorted(fmt_origin(o) for o in orig)})
        else:
            ctx.ok(rid, caller, call, "values dictionary handed to OperatorTemplate.apply is private (copy/fresh)",
                   {"values_origins": sorted(fmt_origin(o) for o in orig)})
    if n < 1:
        raise AnalysisError(f"{rid}: no call of OperatorTemplate.apply(values=...) found")


def r3_array_values_by_position(ctx, rid):
    """`val[i] if hasattr(val, 'shape') and sum(val.shape) == N else val` with i = position counter of the loop over the list whose
    length is N.  Decided on update_var/apply with their private helpers spliced in (the selection may live in a helper); the
    selection is recognised as a conditional expression or as an if/else assigning the same local."""
    from engine.inline import inlined
    from engine.util import normalise
    n = 0
    for q in ("CircuitTemplate.update_var", "CircuitTemplate.apply"):
        f0 = ctx.repo.get_func(FC, q)
        f = inlined(ctx, f0)
        cands = []      # (anchor node, test, indexed value, plain value)
        for e in walk_shallow(f.node):
            if isinstance(e, ast.IfExp):
                cands.append((e, e.test, e.body, e.orelse))
            elif isinstance(e, ast.If) and len(e.body) == 1 and len(e.orelse) == 1 and all(
                    isinstance(x, ast.Assign) and len(x.targets) == 1 and isinstance(x.targets[0], ast.Name) for x in (e.body[0], e.orelse[0])) \
                    and e.body[0].targets[0].id == e.orelse[0].targets[0].id:
                cands.append((e, e.test, e.body[0].value, e.orelse[0].value))
        for anchor, test, sel, plain in cands:
            neg = False
            if not isinstance(sel, ast.Subscript):
                sel, plain, neg = plain, sel, True
            if not (isinstance(sel, ast.Subscript) and ast.unparse(normalise(ctx, f, sel.value)) == ast.unparse(normalise(ctx, f, plain))):
                continue
            test = normalise(ctx, f, test)          # the size test may be computed once before the loop (`per_node = hasattr(..) and ..`)
            if not any(isinstance(c, ast.Call) and call_name(c) == "hasattr" for c in ast.walk(test)):
                continue
            n += 1
            label = f"per-node value selection #{n}"
            idx_e = sel.slice
            if not isinstance(idx_e, ast.Name):
                ctx.violation(rid, f0, anchor, f"per-node value is indexed by `{ast.unparse(idx_e)}`, not by the position counter of the resolved node list",
                              label=label)
                continue
            idx = idx_e.id
            loop = None
            for a in _anc(anchor):
                if isinstance(a, ast.For) and any(isinstance(x, ast.Name) and x.id == idx for x in ast.walk(a.target)):
                    loop = a
                    break
                if isinstance(a, (ast.ListComp, ast.GeneratorExp, ast.SetComp, ast.DictComp)):
                    # `[(n, val[i] if per_node else val) for i, n in enumerate(nodes)]`: the generator plays the loop
                    g_ = next((g for g in a.generators if any(isinstance(x, ast.Name) and x.id == idx for x in ast.walk(g.target))), None)
                    if g_ is not None and not g_.ifs:
                        loop = g_
                        break
            lst = None
            if loop is not None and isinstance(loop.iter, ast.Call) and call_name(loop.iter) == "enumerate" and loop.iter.args \
                    and isinstance(loop.target, ast.Tuple) and isinstance(loop.target.elts[0], ast.Name) and loop.target.elts[0].id == idx \
                    and (len(loop.iter.args) == 1 and not loop.iter.keywords):
                lst = normalise(ctx, f, loop.iter.args[0])
            elif loop is not None and isinstance(loop.iter, ast.Call) and call_name(loop.iter) == "range" and len(loop.iter.args) == 1 \
                    and isinstance(loop.target, ast.Name):
                r = normalise(ctx, f, loop.iter.args[0])
                if isinstance(r, ast.Call) and call_name(r) == "len" and r.args:
                    lst = r.args[0]
            if lst is None:
                ctx.violation(rid, f0, anchor, f"per-node value is indexed by `{idx}`, which is not the position counter (enumerate / range(len(..))) "
                                               f"of the resolved node list", label=label)
                continue
            lst_key = ast.unparse(lst)
            ok_size = False
            # the list as it is NAMED at the loop (before normalisation), with the definitions that reach it there
            raw_lst = loop.iter.args[0] if call_name(loop.iter) == "enumerate" else None
            if raw_lst is None and call_name(loop.iter) == "range" and isinstance(loop.iter.args[0], ast.Call) and call_name(loop.iter.args[0]) == "len":
                raw_lst = loop.iter.args[0].args[0] if loop.iter.args[0].args else None
            rd_ = ctx.rd(f)

            def same_list(e):
                if ast.unparse(e) == lst_key:
                    return True
                if isinstance(e, ast.Name) and isinstance(raw_lst, ast.Name) and e.id == raw_lst.id:
                    d1, d2 = rd_.defs_reaching(e), rd_.defs_reaching(raw_lst)
                    return bool(d1) and {id(x) for x in d1} == {id(x) for x in d2}
                return False
            for c in ast.walk(test):
                if not isinstance(c, ast.Compare) or len(c.ops) != 1 or not isinstance(c.ops[0], ast.Eq if not neg else ast.NotEq):
                    continue
                for side in [c.left] + list(c.comparators):
                    sv = normalise(ctx, f, side)
                    if isinstance(sv, ast.Call) and call_name(sv) == "len" and sv.args and same_list(sv.args[0]):
                        ok_size = True
                    if isinstance(side, ast.Call) and call_name(side) == "len" and side.args and same_list(side.args[0]):
                        ok_size = True
            # the positions are those of the FINAL list of addressed nodes: a list of (node, value) pairs that is narrowed after the values
            # were distributed by position gives entry i to another node than the i-th addressed one
            narrowed = None
            if not isinstance(loop, ast.stmt):
                comp_ = next((a for a in _anc(anchor) if isinstance(a, (ast.ListComp, ast.GeneratorExp))), None)
                st_ = comp_
                from engine.srcmodel import parent as _par
                while st_ is not None and not isinstance(st_, ast.stmt):
                    st_ = _par(st_)
                if isinstance(st_, ast.Assign) and len(st_.targets) == 1 and isinstance(st_.targets[0], ast.Name):
                    pairs_name = st_.targets[0].id
                    for later in walk_shallow(f.node):
                        if isinstance(later, (ast.ListComp, ast.GeneratorExp)) and later is not comp_ and getattr(later, "lineno", 0) > st_.lineno \
                                and any(isinstance(g.iter, ast.Name) and g.iter.id == pairs_name and g.ifs for g in later.generators):
                            narrowed = later
                        if isinstance(later, ast.Call) and call_name(later) == "filter" and len(later.args) == 2 and isinstance(later.args[1], ast.Name) \
                                and later.args[1].id == pairs_name and getattr(later, "lineno", 0) > st_.lineno:
                            narrowed = later
            if ok_size and narrowed is not None:
                ctx.violation(rid, f0, narrowed, f"the values are distributed by position over `{ast.unparse(lst)[:40]}` and the resulting pairs are narrowed "
                                                 f"afterwards (`{ast.unparse(narrowed)[:70]}`): the array is sized and indexed against nodes that are not "
                                                 f"addressed, so entry i does not reach the i-th addressed node", label=label)
                continue
            if ok_size:
                ctx.ok(rid, f0, anchor, f"value array indexed by the position counter of `{ast.unparse(lst)[:40]}`, size compared with its length",
                       {"loop": norm(loop) if isinstance(loop, ast.stmt) else ast.unparse(loop.iter), "inlined_helpers": list(f.inlined_helpers)[:6]}, label=label)
            else:
                ctx.violation(rid, f0, anchor, f"the array-size test does not compare with the length of the list the values are distributed over",
                              {"loop": norm(loop) if isinstance(loop, ast.stmt) else ast.unparse(loop.iter), "test": ast.unparse(test)[:160]}, label=label)
    if n < 2:
        raise AnalysisError(f"{rid}: per-node value distribution idiom found {n} times (2 on the pinned tree)")


def _anc(n):
    p = getattr(n, "_parent", None)
    while p is not None:
        yield p
        p = getattr(p, "_parent", None)



def r4_edge_update_replaces_exactly_one_edge(ctx, rid):
    """update_var(edge_vars=...) replaces the addressed edge tuple in this template's edge list.  Several edges between the same
    pair of variables are legal and may carry equal attributes, so the tuple to replace must be selected by identity (or by
    position), not by value: `==` on (source, target, template, attributes) replaces every equal parallel edge.
    Decided on update_var with its private helpers spliced in; the replacement may be a comprehension re-binding self.edges or a
    loop storing into self.edges[i]."""
    from engine.inline import inlined
    from engine.util import normalise
    f0 = ctx.repo.get_func(FC, "CircuitTemplate.update_var")
    f = inlined(ctx, f0)
    selfn = f0.self_name

    def is_edges(e):
        e = normalise(ctx, f, e) if hasattr(e, "_parent") else e
        return isinstance(e, ast.Attribute) and e.attr == "edges" and isinstance(e.value, ast.Name) and e.value.id == selfn
    sites = []          # (statement, selection test, element variable name)
    for st in walk_shallow(f.node):
        if isinstance(st, ast.Assign) and any(isinstance(t, ast.Attribute) and is_edges(t) for t in st.targets):
            v = st.value
            if isinstance(v, ast.ListComp) and isinstance(v.elt, ast.IfExp) and len(v.generators) == 1 and is_edges(v.generators[0].iter) \
                    and isinstance(v.generators[0].target, ast.Name):
                sites.append((st, v.elt.test, v.generators[0].target.id))
            elif isinstance(v, ast.Name):
                # accumulation: `L = []; for e in self.edges: L.append(new if <test> else e)` (or if/else appends); `self.edges = L`
                found = False
                for loop in walk_shallow(f.node):
                    if not (isinstance(loop, ast.For) and isinstance(loop.target, ast.Name) and is_edges(loop.iter)):
                        continue
                    elem = loop.target.id
                    apps = [c for b in loop.body for c in ast.walk(b) if isinstance(c, ast.Call) and isinstance(c.func, ast.Attribute)
                            and c.func.attr == "append" and isinstance(c.func.value, ast.Name) and c.func.value.id == v.id and len(c.args) == 1]
                    if len(apps) == 1 and isinstance(apps[0].args[0], ast.IfExp):
                        sites.append((st, apps[0].args[0].test, elem))
                        found = True
                    elif len(apps) == 2 and len(loop.body) == 1 and isinstance(loop.body[0], ast.If) and loop.body[0].orelse:
                        sites.append((st, loop.body[0].test, elem))
                        found = True
                if not found:
                    raise AnalysisError(f"{rid}: unrecognised edge replacement `{norm(st)}`")
            else:
                raise AnalysisError(f"{rid}: unrecognised edge replacement `{norm(st)}`")
        elif isinstance(st, ast.Assign) and len(st.targets) == 1 and isinstance(st.targets[0], ast.Subscript) and is_edges(st.targets[0].value):
            # self.edges[i] = new  inside `for i, e in enumerate(self.edges): if <test on e>:`
            loop = next((a for a in _anc(st) if isinstance(a, ast.For)), None)
            guard = next((a for a in _anc(st) if isinstance(a, ast.If)), None)
            if loop is None or guard is None or not (isinstance(loop.iter, ast.Call) and call_name(loop.iter) == "enumerate" and loop.iter.args
                                                      and is_edges(loop.iter.args[0]) and isinstance(loop.target, ast.Tuple)
                                                      and len(loop.target.elts) == 2 and isinstance(loop.target.elts[1], ast.Name)):
                raise AnalysisError(f"{rid}: unrecognised edge replacement `{norm(st)}`")
            sites.append((st, guard.test, loop.target.elts[1].id))
    if not sites:
        raise AnalysisError(f"{rid}: update_var no longer replaces an entry of self.edges (edge replacement form not recognised)")
    for st, test, elem in sites:
        neg = False
        while isinstance(test, ast.UnaryOp) and isinstance(test.op, ast.Not):
            test, neg = test.operand, not neg
        if not (isinstance(test, ast.Compare) and len(test.ops) == 1):
            raise AnalysisError(f"{rid}: unrecognised selection test in `{norm(st)}`")
        op = test.ops[0]
        l, r = test.left, test.comparators[0]
        ref = r if isinstance(l, ast.Name) and l.id == elem else (l if isinstance(r, ast.Name) and r.id == elem else None)
        if ref is None:
            raise AnalysisError(f"{rid}: the selection test of `{norm(st)}` does not compare the list element with a reference edge")
        # the reference object must come from this template's own edge map (get_edge) so that identity is meaningful
        rv = normalise(ctx, f, ref)
        from_map = isinstance(rv, ast.Call) and call_name(rv) == "get_edge"
        facts = {"selection": ast.unparse(test), "reference": ast.unparse(rv)[:120]}
        label = "edge to replace is selected by identity"
        if isinstance(op, (ast.Is, ast.IsNot)) and from_map:
            ctx.ok(rid, f0, st, "the edge to replace is selected by identity with the tuple registered in this template's edge map", facts, label=label)
        elif isinstance(op, (ast.Eq, ast.NotEq)):
            ctx.violation(rid, f0, st, "the edge to replace is selected by value (`==`): parallel edges between the same variables with equal "
                                       "attributes are all replaced by the update addressed to one of them", facts, label=label)
        elif not from_map:
            ctx.violation(rid, f0, st, "the reference edge is not the tuple returned by get_edge for the addressed (source, target, idx)", facts, label=label)
        else:
            raise AnalysisError(f"{rid}: unrecognised selection operator in `{norm(st)}`")


def r5_cached_defaults_come_from_the_template(ctx, rid):
    """OperatorTemplate.apply caches (operator IR, default values) per operator and fills every variable a later node does not
    override from those cached defaults.  Each cached default must therefore be the template's own declared value (taken from
    self.variables), never the per-call `values` argument: otherwise the first node's override becomes the default of every
    later node that shares the operator (and a Python/YAML definition differs from its to_yaml round trip)."""
    from engine.inline import inlined
    from engine.util import single_def_value
    eff = ctx.effects
    f0 = ctx.repo.get_func(FO, "OperatorTemplate.apply")
    f = inlined(ctx, f0)            # the instantiation (cache miss) may live in a private helper
    if "values" not in f.params:
        raise AnalysisError(f"{rid}: OperatorTemplate.apply lost its `values` parameter")
    # the dict that is cached: second component of the tuple stored into self.cache[key]
    stores = [st for st in walk_shallow(f.node) if isinstance(st, ast.Assign) and len(st.targets) == 1 and isinstance(st.targets[0], ast.Subscript)
              and isinstance(st.targets[0].value, ast.Attribute) and st.targets[0].value.attr == "cache"]
    if len(stores) != 1 or not (isinstance(stores[0].value, ast.Tuple) and len(stores[0].value.elts) == 2 and isinstance(stores[0].value.elts[1], ast.Name)):
        raise AnalysisError(f"{rid}: the cache store `self.cache[key] = (instance, defaults)` was not recognised")
    def root(nm):
        """follow plain local aliases `a = b` back to the name the container was created under"""
        for _ in range(6):
            v = single_def_value(ctx, f, nm) if isinstance(nm, ast.Name) else None
            if isinstance(v, ast.Name):
                nm = v
            else:
                break
        return nm.id if isinstance(nm, ast.Name) else None
    dname = root(stores[0].value.elts[1])
    an = analyse(eff, f, None)
    writes = [st for st in walk_shallow(f.node) if isinstance(st, ast.Assign) and len(st.targets) == 1 and isinstance(st.targets[0], ast.Subscript)
              and isinstance(st.targets[0].value, ast.Name) and root(st.targets[0].value) == dname]
    if not writes:
        raise AnalysisError(f"{rid}: no store into the cached defaults `{dname}` found")
    for w in writes:
        orig = an.origins(w.value)
        bad = [o for o in orig if o[0] == "P" and o[1] == "values"]
        # also a direct syntactic mention of `values` in the stored expression
        mentions = any(isinstance(n, ast.Name) and n.id == "values" for n in ast.walk(w.value))
        facts = {"stored": ast.unparse(w.value), "origins": sorted(fmt_origin(o) for o in orig)}
        if bad or mentions:
            ctx.violation(rid, f, w, f"the cached default of a variable is taken from the per-call `values` argument (`{ast.unparse(w.value)}`): the "
                                     f"first node's override becomes the default of every later node sharing this operator", facts,
                          label="cached operator defaults come from the template")
        else:
            ctx.ok(rid, f, w, "the cached default is the template's own declared value", facts, label="cached operator defaults come from the template")
    # the per-call dict is only filled, from the cached defaults, where the caller gave no value: decided by C13-R9 (presence of
    # the key decides; membership tests of either polarity, setdefault, get(k, default), conditional expressions on presence and
    # `{**cached, **values}` are the accepted forms; update(cached), a truthiness test or an unconditional fill are violations)
    from .c13 import r9_explicit_value_wins_over_cached_default
    r9_explicit_value_wins_over_cached_default(ctx, rid)


def r7_update_reaches_the_variation(ctx, rid):
    """After `template.update_var(op, var, val)` the template's effective value of `var` is `val`: every normal path of
    OperatorGraphTemplate.update_var either stores `val` under `var` in the operator's variation table or removes the entry (so that
    the operator default applies - legitimate only when that default IS the value, which is the caller's branch condition).  A path
    that returns without touching the entry keeps whatever an earlier override put there."""
    from engine.inline import inlined
    f0 = ctx.repo.get_func(FG, "OperatorGraphTemplate.update_var")
    f = inlined(ctx, f0)
    cfg = ctx.cfg(f)
    params = [p for p in f0.params if p != f0.self_name]
    if len(params) < 3:
        raise AnalysisError(f"{rid}: OperatorGraphTemplate.update_var lost its (op, var, val) parameters")
    var_p = params[1]

    def keyed_by_var(e):
        return isinstance(e, ast.Name) and e.id == var_p

    def touches(st):
        if not isinstance(st, ast.stmt) or isinstance(st, (ast.If, ast.For, ast.While, ast.Try, ast.With)):
            return False
        if isinstance(st, ast.Assign) and any(isinstance(t, ast.Subscript) and keyed_by_var(t.slice) for t in st.targets):
            return True
        if isinstance(st, ast.Delete) and any(isinstance(t, ast.Subscript) and keyed_by_var(t.slice) for t in st.targets):
            return True
        for c in ast.walk(st):
            if isinstance(c, ast.Call) and isinstance(c.func, ast.Attribute) and c.func.attr in ("pop", "__setitem__", "__delitem__", "setdefault") \
                    and c.args and keyed_by_var(c.args[0]):
                return True
            if isinstance(c, ast.Call) and isinstance(c.func, ast.Attribute) and c.func.attr == "update" and c.args \
                    and isinstance(c.args[0], ast.Dict) and any(keyed_by_var(k) for k in c.args[0].keys):
                return True
        return False
    if not any(touches(st) for st in cfg.stmts()):
        raise AnalysisError(f"{rid}: no store into / removal from a table keyed by `{var_p}` found in OperatorGraphTemplate.update_var")
    witness = cfg.must_pass(cfg.ENTRY, touches)
    if witness is None:
        ctx.ok(rid, f0, f0.node, f"every normal path of update_var stores or removes the variation of `{var_p}`", label="the override reaches the variation table")
    else:
        ret = next((x for x in reversed(witness) if isinstance(x, ast.Return)), None)
        ctx.violation(rid, f0, ret or f0.node, f"a normal path of update_var returns without storing or removing the variation of `{var_p}`: an override "
                                               f"given earlier (by a previous call or by the template's definition) stays in force and the value just "
                                               f"passed never arrives", {"witness": cfg.path_str(witness)}, label="the override reaches the variation table")


def r6_edge_records_carry_their_index(ctx, rid):
    """An edge override addressed by (source, target, idx) reaches exactly that edge: wherever an edge record handed to update_var was
    resolved with an index that can be non-zero, the record carries that index (adapt_circuit's producer records and the update_var
    consumer; the C17-R3 analysis, reused)."""
    from .c17 import edge_records_carry_their_index
    edge_records_carry_their_index(ctx, rid)


RULES = [
    ("C07-R1", r1_update_var_writes_private_state, 3),
    ("C07-R2", r2_apply_does_not_write_template, 9),
    ("C07-R3", r3_array_values_by_position, 2),
    ("C07-R4", r4_edge_update_replaces_exactly_one_edge, 1),
    ("C07-R5", r5_cached_defaults_come_from_the_template, 2),
    ("C07-R6", r6_edge_records_carry_their_index, 1),
    ("C07-R7", r7_update_reaches_the_variation, 1),
]
