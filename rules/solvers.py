"""Step summaries of the fixed-step solver siblings (shared by C02-R2, C03-R1/R2/R3, C10-R3/R4).

Instances = every override of `_solve_euler` / `_solve_heun` in a subclass of BaseBackend, found
through the class table (MRO), never by position.  Two forms are recognised:

  loop form  `for i in range(steps): [if i % store_step == 0: rec[idx] = y; idx += 1] ... y += ...`
  scan form  nested `inner_step(carry, _)` / `outer_step(carry, _)` driven by `jax.lax.scan`

The body is executed symbolically (sympy): every call of the callable parameter `func` becomes
F(time_argument, state_argument); with *borrowing* semantics (the generated vector field returns
the buffer it was given, so a second call overwrites the result of the first) a name that is a bare
reference to the result of call j is re-bound to call j+1's result when that call happens.
"""
from __future__ import annotations

import ast
from dataclasses import dataclass, field
from typing import Dict, List, Optional

import sympy as sp

from engine import AnalysisError
from engine.srcmodel import FunctionInfo, ClassInfo, walk_shallow, norm, dotted
from engine.util import call_name, is_attr_of, contains, fstring_template
from engine.inline import inlined

BASE_REL = "pyrates/backend/base/base_backend.py"
SOLVER_NAMES = ("_solve_euler", "_solve_heun")

F = sp.Function("F")
Y, DT, TAU, N, T0 = sp.symbols("y dt tau n t0")


@dataclass
class StepSummary:
    f: FunctionInfo
    cls: ClassInfo
    solver: str
    form: str                               # loop | scan
    borrowing: bool
    n_calls: int = 0
    stage_times: List[sp.Expr] = field(default_factory=list)
    stage_states: List[sp.Expr] = field(default_factory=list)
    update_true: Optional[sp.Expr] = None   # y_new under the backend's actual (borrowing or functional) semantics
    update_naive: Optional[sp.Expr] = None  # y_new if every call returned a fresh array
    call_nodes: List[ast.Call] = field(default_factory=list)
    stale_reads: List[dict] = field(default_factory=list)       # borrowed result read after a later call
    store: dict = field(default_factory=dict)
    rows_expr: Optional[str] = None
    rows_node: Optional[ast.AST] = None
    hist: dict = field(default_factory=dict)
    loop: Optional[ast.AST] = None
    update_stmt: Optional[ast.AST] = None
    orig: Optional[FunctionInfo] = None     # the un-inlined method (s.f is the view with private helpers inlined)


def backend_classes(ctx) -> List[ClassInfo]:
    base = ctx.repo.get_class(BASE_REL, "BaseBackend")
    return ctx.repo.subclasses(base)


def is_borrowing(ctx, cls: ClassInfo) -> bool:
    """Does the vector field generated for this backend class write its result in place into the `dy`
    argument (so that the returned array is the caller's buffer)?  Decided from the resolved
    add_var_update / _format_assignment of the class: a functional `.at[...].set(` template means every
    call returns a fresh array."""
    for name in ("add_var_update", "_format_assignment"):
        m = ctx.repo.lookup_method(cls, name)
        if m is None:
            raise AnalysisError(f"anchor vanished: {cls.name}.{name}")
        for n in walk_shallow(m.node):
            t = fstring_template(n) if isinstance(n, ast.JoinedStr) else None
            if t and ".at[" in t:
                return False
    return True


def solver_instances(ctx) -> List[StepSummary]:
    out = []
    for cls in backend_classes(ctx):
        for name in SOLVER_NAMES:
            if name in cls.methods:
                out.append(summarise(ctx, cls, cls.methods[name]))
    return out


# ------------------------------------------------------------------------------------------------
def _strip_round(e: ast.AST) -> ast.AST:
    """int(np.round(x)) / round(x) / int(round(x)) -> ('round', x)"""
    return e


def rows_normal_form(e: ast.AST, env: Dict[str, ast.AST]) -> Optional[str]:
    """Normalise a row-count expression to 'round(<quotient>)' with names inlined."""
    depth = 0
    rounded = False
    while depth < 10:
        depth += 1
        if isinstance(e, ast.Name) and e.id in env:
            e = env[e.id]
            continue
        if isinstance(e, ast.Call) and call_name(e) == "int" and len(e.args) == 1:
            e = e.args[0]
            continue
        if isinstance(e, ast.Call) and call_name(e) in ("round", "rint") and len(e.args) == 1:
            rounded = True
            e = e.args[0]
            continue
        break
    if not rounded:
        return None if not isinstance(e, ast.AST) else "unrounded(" + ast.unparse(e) + ")"
    return "round(" + ast.unparse(e).replace(" ", "") + ")"


class _SymExec:
    """Straight-line symbolic execution of a solver step."""

    def __init__(self, func_param: str, args_names, borrowing: bool):
        self.func_param = func_param
        self.args_names = set(args_names)
        self.borrowing = borrowing
        self.env: Dict[str, sp.Expr] = {}
        self.env_naive: Dict[str, sp.Expr] = {}
        self.K: List[sp.Expr] = []          # call results (true semantics, as symbols K1..)
        self.calls = []
        self.stage_times = []
        self.stage_states = []
        self.stale_reads = []
        self._ksyms: List[sp.Symbol] = []
        self._kdefs: Dict[sp.Symbol, sp.Expr] = {}
        self._kdefs_naive: Dict[sp.Symbol, sp.Expr] = {}

    def expr(self, e: ast.AST, naive=False) -> sp.Expr:
        env = self.env_naive if naive else self.env
        if isinstance(e, ast.Constant) and isinstance(e.value, (int, float)) and not isinstance(e.value, bool):
            return sp.nsimplify(e.value, rational=True)
        if isinstance(e, ast.Name):
            if e.id in env:
                return env[e.id]
            return sp.Symbol(e.id)
        if isinstance(e, ast.UnaryOp) and isinstance(e.op, ast.USub):
            return -self.expr(e.operand, naive)
        if isinstance(e, ast.BinOp):
            a, b = self.expr(e.left, naive), self.expr(e.right, naive)
            if isinstance(e.op, ast.Add):
                return a + b
            if isinstance(e.op, ast.Sub):
                return a - b
            if isinstance(e.op, ast.Mult):
                return a * b
            if isinstance(e.op, ast.Div):
                return a / b
            raise AnalysisError(f"solver step: unsupported operator in {ast.unparse(e)}")
        if isinstance(e, ast.Call):
            if isinstance(e.func, ast.Name) and e.func.id == self.func_param:
                raise AnalysisError("internal: func call must be pre-registered")
            if call_name(e) in ("int", "float", "asarray", "array") and e.args:
                return self.expr(e.args[0], naive)
            if isinstance(e.func, ast.Attribute) and e.func.attr in ("clone", "copy") and not e.args and not e.keywords:
                return self.expr(e.func.value, naive)       # x.clone() / x.copy(): same value (a private copy)
        raise AnalysisError(f"solver step: unrecognised expression form {ast.unparse(e)}")

    def _func_calls(self, node: ast.AST) -> List[ast.Call]:
        out = [n for n in ast.walk(node) if isinstance(n, ast.Call) and isinstance(n.func, ast.Name) and n.func.id == self.func_param]
        return sorted(out, key=lambda c: (c.lineno, c.col_offset))

    def assign(self, st: ast.stmt):
        """Process `name = expr`, `name += expr`."""
        value = st.value
        calls = self._func_calls(value)
        sub: Dict[int, sp.Symbol] = {}
        for c in calls:
            # arguments are evaluated with the environment *before* the call
            if len(c.args) < 2:
                raise AnalysisError(f"solver step: func call with < 2 positional arguments: {ast.unparse(c)}")
            targ_t, sarg_t = self.expr(c.args[0]), self.expr(c.args[1])
            targ_n, sarg_n = self.expr(c.args[0], True), self.expr(c.args[1], True)
            k = sp.Symbol(f"K{len(self._ksyms) + 1}")
            if self.borrowing and self._ksyms:
                prev = self._ksyms[-1]
                # bare references to the previous result now see the new content
                for nm, v in list(self.env.items()):
                    if v == prev:
                        self.env[nm] = k
                        self.stale_reads.append({"name": nm, "held": str(prev), "overwritten_by_call": len(self._ksyms) + 1,
                                                 "call": ast.unparse(c), "line": c.lineno})
            self._ksyms.append(k)
            self._kdefs[k] = F(targ_t, sarg_t)
            self._kdefs_naive[k] = F(targ_n, sarg_n)
            self.calls.append(c)
            self.stage_times.append(targ_n)
            self.stage_states.append(sarg_n)
            sub[id(c)] = k

        def conv(e, naive):
            if isinstance(e, ast.Call) and id(e) in sub:
                return sub[id(e)]
            if isinstance(e, ast.Call) and ((isinstance(e.func, ast.Attribute) and e.func.attr in ("clone", "copy") and not e.args
                                             and isinstance(e.func.value, ast.Call) and id(e.func.value) in sub)
                                            or (call_name(e) in ("copy", "array", "clone") and len(e.args) == 1 and isinstance(e.args[0], ast.Call)
                                                and id(e.args[0]) in sub and not isinstance(e.func, ast.Attribute) or
                                                (call_name(e) in ("copy", "array") and len(e.args) == 1 and isinstance(e.args[0], ast.Call)
                                                 and id(e.args[0]) in sub))):
                # func(...).clone() / .copy() / np.copy(func(...)) / np.array(func(...)): a private copy of the result - a later
                # call that reuses the borrowed buffer cannot change it.  Its own symbol (never equal to a K symbol) keeps it apart.
                inner = e.func.value if (isinstance(e.func, ast.Attribute) and e.func.attr in ("clone", "copy") and not e.args) else e.args[0]
                k = sub[id(inner)]
                kc = sp.Symbol(str(k) + "copy")
                self._kdefs[kc] = self._kdefs[k]
                self._kdefs_naive[kc] = self._kdefs_naive[k]
                return kc
            if isinstance(e, ast.BinOp):
                a, b = conv(e.left, naive), conv(e.right, naive)
                return {ast.Add: a + b, ast.Sub: a - b, ast.Mult: a * b, ast.Div: a / b}.get(type(e.op)) \
                    if type(e.op) in (ast.Add, ast.Sub, ast.Mult, ast.Div) else self.expr(e, naive)
            if isinstance(e, ast.UnaryOp) and isinstance(e.op, ast.USub):
                return -conv(e.operand, naive)
            if isinstance(e, ast.Tuple):
                return tuple(conv(x, naive) for x in e.elts)
            return self.expr(e, naive)
        vt, vn = conv(value, False), conv(value, True)
        return vt, vn

    def resolve(self, e: sp.Expr, naive=False) -> sp.Expr:
        defs = self._kdefs_naive if naive else self._kdefs
        for _ in range(len(defs) + 1):
            e2 = e.subs(defs) if hasattr(e, "subs") else e
            if e2 == e:
                break
            e = e2
        return e


def _is_scan(n) -> bool:
    return isinstance(n, ast.Call) and ((dotted(n.func) or "").endswith("lax.scan") or (dotted(n.func) or "") == "scan")


def summarise(ctx, cls: ClassInfo, f0: FunctionInfo) -> StepSummary:
    borrowing = is_borrowing(ctx, cls)
    solver = f0.name
    params = f0.params
    if "func" not in params:
        raise AnalysisError(f"{f0.qual}: callable parameter `func` vanished")
    f = inlined(ctx, f0)             # private helpers (layout computation, scan scaffolding) spliced in
    scans = [n for n in walk_shallow(f.node) if _is_scan(n)]
    s = StepSummary(f=f, cls=cls, solver=solver, form="scan" if scans else "loop", borrowing=borrowing, orig=f0)
    # local straight-line definitions before the loop (store_steps etc.)
    pre: Dict[str, ast.AST] = {}
    for st in f.node.body:
        if isinstance(st, ast.Assign) and len(st.targets) == 1 and isinstance(st.targets[0], ast.Name):
            pre[st.targets[0].id] = st.value
    if s.form == "loop":
        _summarise_loop(ctx, s, pre)
    else:
        _summarise_scan(ctx, s, pre)
    return s


def _summarise_loop(ctx, s: StepSummary, pre):
    f = s.f
    loops = [st for st in f.node.body if isinstance(st, ast.For)]
    if len(loops) != 1:
        raise AnalysisError(f"{f.qual}: expected exactly one top-level for loop, found {len(loops)}")
    loop = loops[0]
    s.loop = loop
    if not (isinstance(loop.target, ast.Name) and isinstance(loop.iter, ast.Call) and call_name(loop.iter) == "range"
            and len(loop.iter.args) == 1):
        raise AnalysisError(f"{f.qual}: unrecognised loop header {norm(loop)}")
    ivar = loop.target.id
    steps_nf = rows_normal_form(loop.iter.args[0], pre)
    s.store["steps_expr"] = steps_nf
    state = "y" if "y" in f.params else None
    if state is None:
        raise AnalysisError(f"{f.qual}: state parameter `y` vanished")
    se = _SymExec("func", ["args"], s.borrowing)
    se.env = {ivar: N, "t0": T0, state: Y, "dt": DT}
    se.env_naive = dict(se.env)
    for nm, v in pre.items():        # t0_int = int(t0)
        if isinstance(v, ast.Call) and call_name(v) == "int" and v.args and isinstance(v.args[0], ast.Name) and v.args[0].id == "t0":
            se.env[nm] = T0
            se.env_naive[nm] = T0
    # arithmetic locals bound before the loop (half_dt = dt / 2, first = int(t0) + 0, ...)
    known = {"dt", "t0"}
    for nm, v in pre.items():
        if nm in se.env or nm in f.params:
            continue
        names = {n.id for n in ast.walk(v) if isinstance(n, ast.Name)}
        if not names or not names <= (known | set(se.env)) or any(isinstance(n, (ast.Subscript, ast.Attribute, ast.IfExp, ast.Compare, ast.BoolOp)) for n in ast.walk(v)):
            continue
        try:
            val = se.expr(v)
        except AnalysisError:
            continue
        se.env[nm] = val
        se.env_naive[nm] = val
    store_ifs, hist_ifs = [], []
    ynew_t = ynew_n = None
    for st in loop.body:
        if isinstance(st, ast.If):
            names = {n.id for n in ast.walk(st.test) if isinstance(n, ast.Name)}
            stores_rows = any(isinstance(x, ast.Assign) and len(x.targets) == 1 and isinstance(x.targets[0], ast.Subscript) for x in ast.walk(st))
            if ivar in names and any(isinstance(n, ast.Mod) for n in ast.walk(st.test)) and stores_rows:
                store_ifs.append(st)
                continue
            if any(_is_hist_update(x, pre) for x in ast.walk(st)) or _mentions_ddehistory(st.test, pre):
                hist_ifs.append(st)
                continue
            # a conditional that only reports (print / logging / progress helper): its statements are bare calls that neither receive
            # nor are methods of the state, the record, the history arguments or anything assigned in the loop
            loop_names = {state, "args"} | {t.id for x in ast.walk(loop) for t in ([x.target] if isinstance(x, ast.AugAssign) else
                                                                                 (x.targets if isinstance(x, ast.Assign) else []))
                                            if isinstance(t, ast.Name)} \
                | {x.targets[0].value.id for x in ast.walk(loop) if isinstance(x, ast.Assign) and len(x.targets) == 1
                   and isinstance(x.targets[0], ast.Subscript) and isinstance(x.targets[0].value, ast.Name)}
            own = {t.id for b in st.body for x in ast.walk(b) if isinstance(x, ast.Assign) for t in x.targets if isinstance(t, ast.Name)}
            read_outside = {n.id for other in loop.body if other is not st for n in ast.walk(other) if isinstance(n, ast.Name)}
            simple = all((isinstance(b, ast.Expr) and isinstance(b.value, ast.Call)) or
                         (isinstance(b, ast.Assign) and all(isinstance(t, ast.Name) for t in b.targets)) for b in st.body)
            inert = simple and not st.orelse and not (own & read_outside) and not any(
                isinstance(n, ast.Name) and n.id in (loop_names - {ivar} - own) for b in st.body for n in ast.walk(b))
            if inert:
                s.store.setdefault("reporting_conditionals", []).append(norm(st))
                continue
            raise AnalysisError(f"{f.qual}: unrecognised conditional in the step loop: {norm(st)}")
        if isinstance(st, ast.Assign) and len(st.targets) == 1 and isinstance(st.targets[0], ast.Name):
            vt, vn = se.assign(st)
            se.env[st.targets[0].id] = vt
            se.env_naive[st.targets[0].id] = vn
            if st.targets[0].id == state:
                ynew_t, ynew_n = vt, vn
                s.update_stmt = st
            continue
        if isinstance(st, ast.AugAssign) and isinstance(st.target, ast.Name) and isinstance(st.op, (ast.Add, ast.Sub)):
            vt, vn = se.assign(st)
            cur_t = se.env.get(st.target.id, sp.Symbol(st.target.id))
            cur_n = se.env_naive.get(st.target.id, sp.Symbol(st.target.id))
            sign = 1 if isinstance(st.op, ast.Add) else -1
            se.env[st.target.id] = cur_t + sign * vt
            se.env_naive[st.target.id] = cur_n + sign * vn
            if st.target.id == state:
                ynew_t, ynew_n = se.env[state], se.env_naive[state]
                s.update_stmt = st
            continue
        if isinstance(st, ast.Expr) and isinstance(st.value, ast.Constant):
            continue
        raise AnalysisError(f"{f.qual}: unrecognised statement in the step loop: {norm(st)}")
    if ynew_t is None:
        raise AnalysisError(f"{f.qual}: the step loop never updates the state `{state}`")
    _finish(s, se, ynew_t, ynew_n, shift_tau=True)

    # ---- store cadence (C03-R2)
    store = s.store
    store["n_store_ifs"] = len(store_ifs)
    if len(store_ifs) == 1:
        si = store_ifs[0]
        t = si.test
        # `i % stride == 0`, `0 == i % stride`, `not i % stride`, `not (i % stride)`
        modexpr = None
        if isinstance(t, ast.Compare) and len(t.ops) == 1 and isinstance(t.ops[0], ast.Eq):
            a, b = t.left, t.comparators[0]
            if isinstance(b, ast.Constant) and b.value == 0 and not isinstance(b.value, bool):
                modexpr = a
            elif isinstance(a, ast.Constant) and a.value == 0 and not isinstance(a.value, bool):
                modexpr = b
        elif isinstance(t, ast.UnaryOp) and isinstance(t.op, ast.Not):
            modexpr = t.operand
        ok_test = (isinstance(modexpr, ast.BinOp) and isinstance(modexpr.op, ast.Mod)
                   and isinstance(modexpr.left, ast.Name) and modexpr.left.id == ivar)
        store["test"] = norm(si)
        store["test_is_counter_mod_stride_eq_0"] = ok_test
        store["stride_expr"] = rows_normal_form(modexpr.right, pre) if ok_test else None
        recs = [x for x in si.body if isinstance(x, ast.Assign) and len(x.targets) == 1 and isinstance(x.targets[0], ast.Subscript)]
        incs = [x for x in si.body if isinstance(x, ast.AugAssign) and isinstance(x.target, ast.Name)]
        store["stores_in_branch"] = len(recs)
        store["cursor_incs_in_branch"] = len(incs)
        if len(recs) == 1:
            rec = recs[0]
            store["node"] = rec
            sub = rec.targets[0].slice
            first = sub.elts[0] if isinstance(sub, ast.Tuple) else sub
            store["cursor"] = first.id if isinstance(first, ast.Name) else None
            store["stored_value_is_state"] = isinstance(rec.value, ast.Name) and rec.value.id == state
            store["record"] = rec.targets[0].value.id if isinstance(rec.targets[0].value, ast.Name) else None
            store["inc_ok"] = (len(incs) == 1 and incs[0].target.id == store["cursor"] and isinstance(incs[0].op, ast.Add)
                               and isinstance(incs[0].value, ast.Constant) and incs[0].value.value == 1)
            # ordering inside the branch: store before cursor increment
            store["store_before_inc"] = len(incs) == 1 and si.body.index(rec) < si.body.index(incs[0])
            # the store precedes the state update in the loop body
            store["store_before_update"] = s.update_stmt is not None and loop.body.index(si) < loop.body.index(s.update_stmt)
            # cursor written elsewhere?
            other = [x for x in walk_shallow(loop) if isinstance(x, (ast.Assign, ast.AugAssign)) and x not in incs
                     and any(isinstance(n, ast.Name) and n.id == store["cursor"] and isinstance(n.ctx, ast.Store) for n in ast.walk(x))]
            store["cursor_written_elsewhere_in_loop"] = [norm(x) for x in other]
            # allocation rows
            recname = store["record"]
            alloc = pre.get(recname)
            for _ in range(6):
                if isinstance(alloc, ast.Name) and alloc.id in pre:
                    alloc = pre[alloc.id]
            if isinstance(alloc, ast.Call) and alloc.args:
                shp = alloc.args[0]
                if isinstance(shp, ast.IfExp):
                    firsts = {ast.unparse(x.elts[0]) for x in (shp.body, shp.orelse) if isinstance(x, ast.Tuple) and x.elts}
                    first_e = shp.body.elts[0] if len(firsts) == 1 and isinstance(shp.body, ast.Tuple) else None
                elif isinstance(shp, ast.Tuple) and shp.elts:
                    first_e = shp.elts[0]
                else:
                    first_e = None
                if first_e is not None:
                    s.rows_expr = rows_normal_form(first_e, pre)
                    s.rows_node = alloc
    # ---- history handling (C10-R3/R4)
    _hist_loop(ctx, s, loop, hist_ifs, pre, ivar, state)


def _hist_loop(ctx, s, loop, hist_ifs, pre, ivar, state):
    f = s.f
    h = s.hist
    h["kind"] = "neither"
    # refuses?
    for n in walk_shallow(f.node):
        if isinstance(n, ast.Raise):
            anc_if = None
            p = n
            while p is not None and p is not f.node:
                p = getattr(p, "_parent", None)
                if isinstance(p, ast.If):
                    anc_if = p
                    break
            if anc_if is not None and _mentions_ddehistory(anc_if.test, pre):
                h["kind"] = "raises"
                h["node"] = n
                return
    for hi in hist_ifs:
        upd = [x for x in ast.walk(hi) if _is_hist_update(x, pre)]
        if not upd:
            continue
        u = upd[0]
        h["kind"] = "updates"
        h["node"] = u
        h["guard"] = norm(hi)
        h["guard_is_ddehistory_test"] = _mentions_ddehistory(hi.test, pre)
        recv = _bound_update(u.func, pre)
        h["receiver"] = ast.unparse(recv)

        def is_args0(e):
            return (isinstance(e, ast.Subscript) and isinstance(e.value, ast.Name) and e.value.id == "args"
                    and isinstance(e.slice, ast.Constant) and e.slice.value == 0)
        rv = recv
        if isinstance(rv, ast.Name) and rv.id in pre:
            rv = pre[rv.id]
            if isinstance(rv, ast.IfExp) and isinstance(rv.orelse, ast.Constant) and rv.orelse.value is None:
                rv = rv.body
        h["receiver_is_args0"] = is_args0(rv)
        if len(u.args) == 2:
            se = _SymExec("func", ["args"], False)
            se.env = {ivar: N, "dt": DT}
            try:
                h["time_arg"] = str(sp.expand(se.expr(u.args[0])))
                h["time_arg_ok"] = sp.expand(se.expr(u.args[0]) - (N + 1) * DT) == 0
            except AnalysisError:
                h["time_arg"] = ast.unparse(u.args[0])
                h["time_arg_ok"] = False
            h["state_arg_is_state"] = isinstance(u.args[1], ast.Name) and u.args[1].id == state
        h["after_update"] = s.update_stmt is not None and loop.body.index(hi) > loop.body.index(s.update_stmt)
        # nothing modifies the state between the update and the history feed
        if h["after_update"]:
            between = loop.body[loop.body.index(s.update_stmt) + 1: loop.body.index(hi)]
            h["state_untouched_between"] = not any(
                isinstance(n, ast.Name) and n.id == state and isinstance(n.ctx, ast.Store) for b in between for n in ast.walk(b))
        return


def _bound_update(e, pre):
    """`X.update` possibly hoisted into a local (`upd = X.update if <test> else None`): returns the receiver X or None."""
    if isinstance(e, ast.Attribute) and e.attr == "update":
        return e.value
    if isinstance(e, ast.Name) and e.id in pre:
        v = pre[e.id]
        if isinstance(v, ast.IfExp):
            v = v.body if not (isinstance(v.body, ast.Constant) and v.body.value is None) else v.orelse
        if isinstance(v, ast.Attribute) and v.attr == "update":
            return v.value
    return None


def _is_hist_update(x, pre) -> bool:
    return isinstance(x, ast.Call) and _bound_update(x.func, pre) is not None


def _mentions_ddehistory(test: ast.AST, pre) -> bool:
    # `h is not None` / `h` where h = args[0] if <DDEHistory test> else None
    t = test
    if isinstance(t, ast.Compare) and len(t.ops) == 1 and isinstance(t.ops[0], ast.IsNot) and isinstance(t.comparators[0], ast.Constant) \
            and t.comparators[0].value is None:
        t = t.left
    if isinstance(t, ast.Name) and t.id in pre and isinstance(pre[t.id], ast.IfExp) and isinstance(pre[t.id].orelse, ast.Constant) \
            and pre[t.id].orelse.value is None:
        return _mentions_ddehistory(pre[t.id].test, {k: v for k, v in pre.items() if k != t.id})
    for n in ast.walk(test):
        if isinstance(n, ast.Name) and n.id in pre and n.id not in ("args",):
            if _mentions_ddehistory(pre[n.id], {}):
                return True
        if isinstance(n, ast.Call) and call_name(n) == "isinstance" and len(n.args) == 2:
            if "DDEHistory" in ast.unparse(n.args[1]):
                return True
    return False


def _summarise_scan(ctx, s: StepSummary, pre):
    f = s.f

    def deref(e):
        for _ in range(6):
            if isinstance(e, ast.Name) and e.id in pre and e.id not in f.nested:
                e = pre[e.id]
            else:
                break
        return e
    top_scans = [n for n in walk_shallow(f.node) if _is_scan(n)]
    if len(top_scans) != 1 or not top_scans[0].args:
        raise AnalysisError(f"{f.qual}: expected exactly one top-level lax.scan call, found {len(top_scans)}")
    o = deref(top_scans[0].args[0])
    outer = f.nested.get(o.id) if isinstance(o, ast.Name) else None
    if outer is None:
        raise AnalysisError(f"{f.qual}: the function driven by the outer scan is not a nested def")
    in_scans = [n for n in walk_shallow(outer.node) if _is_scan(n)]
    if len(in_scans) != 1 or not in_scans[0].args:
        raise AnalysisError(f"{outer.qual}: expected exactly one inner lax.scan call, found {len(in_scans)}")
    i_ = deref(in_scans[0].args[0])
    inner = f.nested.get(i_.id) if isinstance(i_, ast.Name) else None
    if inner is None:
        raise AnalysisError(f"{f.qual}: the step function driven by the inner scan is not a nested def")
    # inner_step(carry, _): t, y = carry ; ... ; return (t', y'), None
    body = inner.node.body
    se = _SymExec("func", ["args_t", "args"], s.borrowing)
    unpack = body[0]
    if not (isinstance(unpack, ast.Assign) and isinstance(unpack.targets[0], ast.Tuple) and len(unpack.targets[0].elts) == 2
            and isinstance(unpack.value, ast.Name) and unpack.value.id == inner.params[0]):
        raise AnalysisError(f"{inner.qual}: unrecognised carry unpacking {norm(unpack)}")
    tname, yname = (e.id for e in unpack.targets[0].elts)
    # closure constants: names bound before the scan to (an array of) the literal 1
    se.env = {tname: TAU, yname: Y, "dt": DT}
    for nm in pre:
        v = deref(ast.Name(id=nm, ctx=ast.Load()))
        while isinstance(v, ast.Call) and call_name(v) in ("asarray", "array", "int", "int32", "int64") and v.args:
            v = v.args[0]
        if isinstance(v, ast.Constant) and v.value == 1 and not isinstance(v.value, bool):
            se.env[nm] = sp.Integer(1)
    for nm, v in pre.items():
        if nm in se.env or nm in f.params:
            continue
        names = {n.id for n in ast.walk(v) if isinstance(n, ast.Name)}
        if not names or not names <= ({"dt"} | set(se.env)) or any(isinstance(n, (ast.Subscript, ast.Attribute, ast.IfExp, ast.Compare, ast.BoolOp, ast.Call))
                                                                     for n in ast.walk(v)):
            continue
        try:
            se.env[nm] = se.expr(v)
        except AnalysisError:
            continue
    se.env_naive = dict(se.env)
    ret = None
    for st in body[1:]:
        if isinstance(st, ast.Assign) and len(st.targets) == 1 and isinstance(st.targets[0], ast.Name):
            vt, vn = se.assign(st)
            se.env[st.targets[0].id] = vt
            se.env_naive[st.targets[0].id] = vn
        elif isinstance(st, ast.Return):
            ret = st
        elif isinstance(st, ast.Expr) and isinstance(st.value, ast.Constant):
            continue
        else:
            raise AnalysisError(f"{inner.qual}: unrecognised statement {norm(st)}")
    if ret is None or not (isinstance(ret.value, ast.Tuple) and len(ret.value.elts) == 2 and isinstance(ret.value.elts[0], ast.Tuple)
                           and len(ret.value.elts[0].elts) == 2):
        raise AnalysisError(f"{inner.qual}: unrecognised return form")
    fake = ast.Assign(targets=[ast.Name(id="_ret", ctx=ast.Store())], value=ret.value.elts[0])
    (tn_t, yn_t), (tn_n, yn_n) = se.assign(fake)
    s.update_stmt = ret
    s.store["time_carry_advances_by_one"] = sp.expand(tn_n - TAU - 1) == 0
    _finish(s, se, yn_t, yn_n, shift_tau=False)
    # outer block, abstractly: C = the block's carry, E = the carry returned by the inner scan; ('T', a, b) = tuple
    store = s.store
    store["form"] = "scan"
    cparam = outer.params[0] if outer.params else None
    aenv = {cparam: ("C",)} if cparam else {}

    def canon(v):
        if isinstance(v, tuple) and v and v[0] == "T" and len(v) == 3:
            a_, b_ = canon(v[1]), canon(v[2])
            for base in ("C", "E"):
                if a_ == (base, 0) and b_ == (base, 1):
                    return (base,)
            return ("T", a_, b_)
        return v

    def absval(e):
        if isinstance(e, ast.Name):
            return aenv.get(e.id, ("?", e.id))
        if isinstance(e, ast.Tuple) and len(e.elts) == 2:
            return canon(("T", absval(e.elts[0]), absval(e.elts[1])))
        if isinstance(e, ast.Subscript) and isinstance(e.slice, ast.Constant) and e.slice.value in (0, 1):
            b_ = absval(e.value)
            if b_ in (("C",), ("E",)):
                return (b_[0], e.slice.value)
            if isinstance(b_, tuple) and b_ and b_[0] == "T":
                return canon(b_[1 + e.slice.value])
        return ("?", ast.unparse(e)[:40])

    def bind(target, val):
        if isinstance(target, ast.Name):
            aenv[target.id] = canon(val)
        elif isinstance(target, (ast.Tuple, ast.List)) and len(target.elts) == 2:
            val = canon(val)
            if val in (("C",), ("E",)):
                parts = [(val[0], 0), (val[0], 1)]
            elif isinstance(val, tuple) and val and val[0] == "T":
                parts = [val[1], val[2]]
            else:
                parts = [("?", "part0"), ("?", "part1")]
            for t_, p_ in zip(target.elts, parts):
                bind(t_, p_)
    c_in = in_scans[0]
    oret = None
    for st in outer.node.body:
        if isinstance(st, ast.Assign) and len(st.targets) == 1:
            if st.value is c_in:
                # (carry_end, per_step_outputs) = scan(...)
                tgt = st.targets[0]
                if isinstance(tgt, (ast.Tuple, ast.List)) and len(tgt.elts) == 2:
                    bind(tgt.elts[0], ("E",))
                else:
                    raise AnalysisError(f"{outer.qual}: the inner scan's result is not unpacked into (carry, outputs)")
            else:
                bind(st.targets[0], absval(st.value))
        elif isinstance(st, ast.Return):
            oret = st
        elif isinstance(st, ast.Expr) and isinstance(st.value, ast.Constant):
            continue
        else:
            raise AnalysisError(f"{outer.qual}: unrecognised statement {norm(st)}")
    if oret is None or not (isinstance(oret.value, ast.Tuple) and len(oret.value.elts) == 2):
        raise AnalysisError(f"{outer.qual}: unrecognised return form")
    store["node"] = oret
    init = c_in.args[1] if len(c_in.args) > 1 else None
    store["inner_starts_from_block_start"] = init is not None and absval(init) == ("C",)
    store["outer_carry_is_inner_end"] = absval(oret.value.elts[0]) == ("E",)
    store["emits_start_state"] = absval(oret.value.elts[1]) == ("C", 1)
    ln = [k.value for k in c_in.keywords if k.arg == "length"]
    store["stride_expr"] = rows_normal_form(ln[0], pre) if ln else None
    outer_scan = top_scans
    if outer_scan:
        c = outer_scan[0]
        ln = [k.value for k in c.keywords if k.arg == "length"]
        if ln:
            s.rows_expr = rows_normal_form(ln[0], pre)
            s.rows_node = c
        init = deref(c.args[1]) if len(c.args) > 1 else None
        if isinstance(init, ast.Tuple) and len(init.elts) == 2:
            def root(e):
                seen = 0
                while seen < 6:
                    seen += 1
                    if isinstance(e, ast.Name) and e.id in pre and e.id not in f.params:
                        e = pre[e.id]
                    elif isinstance(e, ast.Call) and call_name(e) in ("asarray", "astype", "int", "float") and (e.args or isinstance(e.func, ast.Attribute)):
                        e = e.args[0] if call_name(e) != "astype" else e.func.value
                    else:
                        break
                return ast.unparse(e)
            store["init_time_is_t0"] = root(init.elts[0]) == "t0"
            store["init_state_is_y"] = root(init.elts[1]) == "y"
    s.hist["kind"] = "neither"
    for n in ast.walk(f.node):
        if isinstance(n, ast.Raise):
            p = n
            while p is not None and p is not f.node:
                p = getattr(p, "_parent", None)
                if isinstance(p, ast.If) and _mentions_ddehistory(p.test, pre):
                    s.hist["kind"] = "raises"
                    s.hist["node"] = n
        if isinstance(n, ast.Call) and call_name(n) == "update" and isinstance(n.func, ast.Attribute):
            s.hist["kind"] = "updates"
            s.hist["node"] = n


def _finish(s: StepSummary, se: _SymExec, ynew_t, ynew_n, shift_tau: bool):
    s.n_calls = len(se.calls)
    s.call_nodes = se.calls
    s.stale_reads = se.stale_reads

    def canon(e):
        e = sp.sympify(e)
        if shift_tau:
            e = e.subs(N, TAU - T0)
        return sp.simplify(sp.expand(e))
    s.update_true = canon(se.resolve(ynew_t, naive=False))
    s.update_naive = canon(se.resolve(ynew_n, naive=True))
    s.stage_times = [canon(se.resolve(t, True)) for t in se.stage_times]
    s.stage_states = [canon(se.resolve(x, True)) for x in se.stage_states]


def reference_update(solver: str, stage2_time=None):
    k1 = F(TAU, Y)
    if solver == "_solve_euler":
        return sp.simplify(sp.expand(Y + DT * k1))
    t2 = stage2_time if stage2_time is not None else TAU
    k2 = F(t2, Y + DT * k1)
    return sp.simplify(sp.expand(Y + DT / 2 * (k1 + k2)))



def cadence_defects(s, rid):
    """Names of the sample-then-step facts a solver summary fails (loop form: counter-modulo-stride guarded store before the update,
    cursor advanced once per store, stride round(dts/dt), round(T/dt) steps; scan form: the outer block emits its start state, runs
    the inner scan from the block's carry, hands the inner scan's end carry - time counter AND state - to the next block, starts
    from (t0, y), the inner carry's time advances by one per step, stride round(dts/dt))."""
    st = s.store
    if s.form == "loop":
        need = ["test_is_counter_mod_stride_eq_0", "stored_value_is_state", "inc_ok", "store_before_inc", "store_before_update"]
        if st.get("n_store_ifs") != 1 or st.get("stores_in_branch") != 1:
            raise AnalysisError(f"{rid}: {s.f.qual}: record store has an unrecognised form ({ {k: v for k, v in st.items() if k != 'node'} })")
        bad = [k for k in need if not st.get(k)]
        if st.get("cursor_written_elsewhere_in_loop"):
            bad.append("cursor_written_elsewhere_in_loop")
        if st.get("stride_expr") != "round(dts/dt)":
            bad.append(f"stride_expr={st.get('stride_expr')}")
        if st.get("steps_expr") != "round(T/dt)":
            bad.append(f"steps_expr={st.get('steps_expr')}")
    else:
        need = ["emits_start_state", "inner_starts_from_block_start", "outer_carry_is_inner_end", "init_time_is_t0",
                "init_state_is_y", "time_carry_advances_by_one"]
        bad = [k for k in need if not st.get(k)]
        if st.get("stride_expr") != "round(dts/dt)":
            bad.append(f"stride_expr={st.get('stride_expr')}")
    return bad
