"""C13 — results do not depend on what the process did before (DESIGN §4 C13).

K5 global-state inventory (R1), K3 cache key determines cached value (R2), K2 per-compilation state is reset before its first
use (R3), K4 registries are not mutated through shallow copies (R4).
"""
from __future__ import annotations

import ast
from dataclasses import dataclass, field
from typing import Dict, List, Optional, Set, Tuple

from engine import AnalysisError
from engine.srcmodel import (walk_shallow, norm, parent, ancestors, dotted, ClassInfo, FunctionInfo, Module)
from engine.util import call_name, header_nodes, stmt_calls, contains
from engine.cfg import stmt_of
from engine.callgraph import BUILTIN_METHODS

PROPERTY = "C13"

EXPLANATION = (
    "Equality of results across process histories is behaviour and is NOT decided.  Decided: that no *carrier* of history exists "
    "besides the listed findings.  R1 re-derives the inventory of process-global mutable state from the source model (module- and "
    "class-level bindings of dict/list/set values, class attributes stored through the class object, names re-bound through a "
    "`global` statement, mutable default arguments, sys.modules/sys.path writes, exec(..., globals()) namespace writes), finds every "
    "mutation of each by a whole-repo use analysis (subscript store / augmented store / del / mutator call / mutation through a "
    "local or `self.<attr>` alias / through a callee's parameter / of a value read from the container) and classifies it: constant "
    "table (never mutated after import), content-keyed cache (only `c[k] = v` stores next to a keyed read, cached values not "
    "modified afterwards; R2 decides the key), per-compilation state (a clear()/re-binding is reachable over the resolved call graph "
    "from the documented reset CircuitTemplate.clear), registry / registration-time state (no mutator is reachable from a compile "
    "entry).  The inventory is pinned in TABLE; a global container that is mutated on a path from a compile entry, is not a pure "
    "cache and that no reset reaches is a violation naming it.  R2: for every keyed cache (pinned caches, any unpinned pure cache, "
    "and `import <computed name>` of a module file the same function wrote) every access-path root of the backward def-use slice "
    "of the stored value must be covered by a root of the key's slice.  R3: from CircuitTemplate.apply / run / get_run_func / "
    "get_jacobian_func, on every CFG path (interprocedurally, callee by callee) the first state-observing use of a per-compilation "
    "container is preceded by a statement that resets it on all of its own paths.  R4: a value reached through a shallow copy of a "
    "dict-of-dicts registry (`*_funcs.copy()` stored in `self._funcs`) is never written unless it was copied first; the flow is "
    "followed through locals, parameters, `self.<attr>` and return values.  R7: reset coupling - a global container that hands out "
    "names depending on its own mutation history (passed to a callee that advances it, or `G[k] op= v`: a label counter) is a name "
    "generator; the names are followed (value flow only: aliases, tuple results, string building, returned to call sites, call "
    "arguments -> parameters -> `self.<attr>` of the constructed class family) into the keys of global caches; every run-time reset "
    "of the generator must be accompanied, on every path through the resetting function (a resetting statement dominates it or "
    "lies on every path to the exit; private helpers are judged at their call sites), by a reset of every cache so keyed - else a "
    "later model draws a name that still has an entry.  R8 (= C02-R8): a backend only ever switches the process-wide 64-bit mode on.  R9: where a value read from a keyed cache "
    "completes a dict the caller passed in (in the reading function or a callee the cached value is handed to), the caller's explicit "
    "value wins: the fill is decided by the presence of the key (`k not in d`, setdefault, get(k, default), {**cached, **d}), never "
    "by the truthiness of the caller's value and never unconditionally.  "
    "NOT decided: names that reach a cache key through a container or an object other than a constructed instance's attribute; equality of results; injectivity of a key "
    "(a key that is a lossy function of the right inputs passes R2); control dependence of cached values (only data flow is "
    "sliced; a method call counts as depending on its whole receiver); state held by instances (ComputeGraph._state_var_hist etc., "
    "listed as information: discarded with the object); aliasing of a cached template object handed to the user (C14); files on "
    "disk; the namespace writes of exec(..., globals()) (listed, see triage/probes/p16.py); the Matlab/Julia engines' own caches."
)
RULE_TEXT = ("instances = every discovered global container (R1), every keyed cache function (R2), every (per-compilation container, "
             "compile entry) pair (R3), every function that receives a value through the shallow registry copy (R4), every (name generator, cache keyed by its names, "
             "reset site of the generator) triple (R7); non-trivial = "
             "needed the whole-repo use analysis, a call-graph closure, a def-use slice or a CFG path argument.")
ASSUMPTIONS = [
    "Mutation of a global container happens only through the syntactic forms of MUTATORS / subscript store / del / augmented "
    "assignment, directly, through a local alias, through a parameter of a resolved callee, or through a value read from it; any "
    "other use form of a global container raises ANALYSIS-ERROR instead of being assumed harmless.",
    "`self.x op= v` on an immutable class-level value creates an instance attribute and leaves the class value unchanged (Python "
    "semantics).",
    "`import name` / `from name import ...` returns sys.modules[name] when present (Python import semantics), i.e. it is a cache "
    "keyed by the module name.",
    "If any method of a class family binds `self.a = ...`, then `self.a` denotes the instance attribute everywhere in that family "
    "(a class-level container of the same name is then only reached through the class object).",
    "Callables passed as data and call sites the engine cannot resolve add no edges to the call graph (engine assumption); the "
    "closure from CircuitTemplate.clear additionally resolves `x.clear()` when the class of x follows from constructor calls, "
    "`self.<attr>` assignments or return values.",
]

CIRCUIT_T = "pyrates/frontend/template/circuit.py"
RESET_ROOT = (CIRCUIT_T, "CircuitTemplate.clear")
# compile entries in the order in which a violation is anchored
R3_ENTRIES = [(CIRCUIT_T, "CircuitTemplate.apply"), (CIRCUIT_T, "CircuitTemplate.run"),
              (CIRCUIT_T, "CircuitTemplate.get_run_func"), (CIRCUIT_T, "CircuitTemplate.get_jacobian_func")]
# public entries of the property's quantifier (used for: registry mutators must be unreachable from them)
PUBLIC_ENTRIES = R3_ENTRIES + [
    (CIRCUIT_T, "CircuitTemplate.__init__"), (CIRCUIT_T, "CircuitTemplate.update_var"), (CIRCUIT_T, "CircuitTemplate.update_template"),
    (CIRCUIT_T, "CircuitTemplate.clear"), ("pyrates/frontend/template/__init__.py", "from_yaml"),
    ("pyrates/frontend/template/operator.py", "OperatorTemplate.__init__"), ("pyrates/frontend/template/operator.py", "OperatorTemplate.update_template"),
    ("pyrates/frontend/template/operator_graph.py", "OperatorGraphTemplate.__init__"),
    ("pyrates/frontend/template/operator_graph.py", "OperatorGraphTemplate.update_template"),
    ("pyrates/frontend/template/abc.py", "AbstractBaseTemplate.from_yaml"),
    ("pyrates/utility.py", "clear"), ("pyrates/utility.py", "clear_frontend_caches"),
]

MUTATORS = {"append", "extend", "update", "pop", "popitem", "clear", "insert", "remove", "setdefault", "add", "discard", "sort",
            "reverse", "appendleft", "popleft", "move_to_end", "intersection_update", "difference_update",
            "symmetric_difference_update"}
READ_METHODS = {"get", "items", "keys", "values", "copy", "index", "count", "union", "intersection", "difference", "issubset",
                "issuperset", "isdisjoint", "__contains__", "__len__"}
PURE_BUILTINS = {"len", "dict", "list", "set", "tuple", "sorted", "frozenset", "enumerate", "zip", "iter", "any", "all", "sum", "min",
                 "max", "str", "repr", "print", "isinstance", "type", "id", "bool", "deepcopy", "copy", "reversed", "next", "hash",
                 "format", "map", "filter", "range", "int", "float", "callable", "getattr", "hasattr"}
# methods of builtin containers that only read their argument (its entries are copied by reference)
SHALLOW_READERS = {"update", "extend", "union", "intersection", "difference", "issubset", "issuperset", "isdisjoint", "join"}
COPY_MAKERS = {"dict", "list", "set", "deepcopy", "copy", "OrderedDict"}
CONTAINER_CTORS = {"dict", "list", "set", "defaultdict", "OrderedDict", "deque", "Counter"}

# ---------------------------------------------------------------------------------------------------------------------
# The pinned inventory (DESIGN §4 C13-R1).  key -> (class, one-line reason).  Classes:
#   constant         never mutated after import
#   cache            content-keyed cache: R2 decides that the key determines the value
#   per-compilation  state of one compilation; a reset must be reachable from CircuitTemplate.clear; R3 decides reset-before-use
#   registry         filled at import / by a public registration function that no compile entry reaches
#   search-path      frozen exception, see reason
#   namespace        frozen exception, see reason
# A discovered container that is not listed is classified from its facts alone.
# ---------------------------------------------------------------------------------------------------------------------
TABLE: Dict[str, Tuple[str, str]] = {
    "pyrates/backend/base/base_backend.py::_compiled_module_cache": ("cache", "sha256(source text) -> executed module"),
    "pyrates/backend/parser.py::_sympify_cache": ("cache", "expression string -> sympify(string)"),
    "pyrates/frontend/template/__init__.py::template_cache": ("cache", "template path -> template loaded from that path"),
    "pyrates/frontend/template/operator.py::OperatorTemplate.cache": ("cache", "operator name -> (OperatorIR, defaults); D-16: the name does not determine them"),
    "pyrates/ir/node.py::node_cache": ("per-compilation", "hash(operator graph) -> vectorised node that later nodes are appended to"),
    "pyrates/ir/node.py::op_cache": ("per-compilation", "hash(operator graph) -> operator graph of the cached node"),
    "pyrates/ir/node.py::node_labels": ("per-compilation", "label counters of the vectorised nodes"),
    "pyrates/ir/circuit.py::in_edge_indices": ("per-compilation", "target node -> number of in_edge operators created so far"),
    "pyrates/ir/circuit.py::in_edge_vars": ("per-compilation", "target operator -> label counters of its input variables"),
    "pyrates/frontend/template/circuit.py::input_labels": ("per-compilation", "label counters of the extrinsic-input nodes"),
    "sys::modules": ("per-compilation", "sys.modules[file name] of the generated module; removed by BaseBackend.clear"),
    "sys::path": ("search-path", "append-only list of directories (cwd, build dir); its only consumer is import-by-name, which R2 decides (D-17)"),
    "pyrates/frontend/template/__init__.py::known_template_classes": ("registry", "class name -> template class; filled at import through register_template_class"),
    "pyrates/backend/base/base_funcs.py::base_funcs": ("registry", "function registry (dict of dicts); copied per backend instance, see R4"),
    "pyrates/backend/torch/torch_funcs.py::torch_funcs": ("registry", "function registry, see R4"),
    "pyrates/backend/jax/jax_funcs.py::jax_funcs": ("registry", "function registry, see R4"),
    "pyrates/backend/fortran/fortran_funcs.py::fortran_funcs": ("registry", "function registry, see R4"),
    "pyrates/backend/julia/julia_funcs.py::julia_funcs": ("registry", "function registry, see R4"),
    "pyrates/backend/matlab/matlab_funcs.py::matlab_funcs": ("registry", "function registry, see R4"),
    "pyrates/backend/base/base_backend.py::<module namespace>": ("namespace", "exec(import line / helper def, globals()) in BaseBackend.get_op: only reached for registry entries without 'func' (none of torch/jax today, triage/probes/p16.py)"),
    "pyrates/backend/fortran/fortran_backend.py::<module namespace>": ("namespace", "exec('from <fname> import <fname>', globals()): binds the extension module under its file name; the import itself is decided by R2 (D-17)"),
    "pyrates/backend/parser.py::_DDE_EXCLUDE": ("constant", "function names excluded from the x(t-d) rewrite"),
    "pyrates/backend/parser.py::ExpressionParser._constant_counter": ("constant", "class value 0; `self._constant_counter += 1` creates an instance attribute"),
    "pyrates/backend/fortran/fortran_backend.py::FortranBackend._AUTO_CONSTANTS_DEFAULTS": ("constant", "auto-07p defaults"),
    "pyrates/backend/fortran/fortran_backend.py::FortranBackend._AUTO_CONSTANTS_SCENARIOS": ("constant", "auto-07p scenario presets"),
    "pyrates/backend/fortran/fortran_backend.py::FortranBackend._BVP_PREFIXES": ("constant", "auto-07p BVP prefixes"),
    "pyrates/frontend/file.py::file_loader_mapping": ("constant", "extension -> loader (unused)"),
    "pyrates/frontend/fileio/__init__.py::FILEIOMODES": ("constant", "names of the file formats"),
    "pyrates/ir/__init__.py::_unique_objects": ("constant", "unused"),
    "pyrates/backend/computegraph.py::ComputeNode.__slots__": ("constant", "slot names"),
    "pyrates/ir/abc.py::AbstractBaseIR.__slots__": ("constant", "slot names"),
    "pyrates/ir/circuit.py::CircuitIR.__slots__": ("constant", "slot names"),
    "pyrates/ir/node.py::NodeIR.__slots__": ("constant", "slot names"),
    "pyrates/ir/node.py::VectorizedNodeIR.__slots__": ("constant", "slot names"),
    "pyrates/ir/operator.py::ProtectedVariableDict.__slots__": ("constant", "slot names"),
    "pyrates/ir/operator.py::OperatorIR.__slots__": ("constant", "slot names"),
}


# =====================================================================================================================
# containers
# =====================================================================================================================

@dataclass(eq=False)
class Container:
    key: str                         # rel::name / rel::Class.name / sys::modules
    kind: str                        # module | class | default | sys | namespace
    module: Optional[Module]
    name: str
    cls: Optional[ClassInfo] = None
    value: Optional[ast.AST] = None
    stmt: Optional[ast.AST] = None
    mutable_value: bool = True
    owner: Optional[FunctionInfo] = None          # kind == default
    events: List["Event"] = field(default_factory=list)

    @property
    def loc(self):
        if self.module is not None and self.stmt is not None and hasattr(self.stmt, "lineno"):
            return f"{self.module.rel}:{self.stmt.lineno}"
        return self.key.split("::")[0]


@dataclass(eq=False)
class Event:
    kind: str        # def read keyread store aug del mutcall reset rebind argmut inner-mut inner-call inner-escape copy escape
    f: Optional[FunctionInfo]
    node: ast.AST
    module: Module
    detail: str = ""
    key: Optional[ast.AST] = None
    value: Optional[ast.AST] = None

    @property
    def where(self):
        return f"{self.f.qualname if self.f is not None else '<module>'}@{self.module.rel}:{getattr(self.node, 'lineno', '?')}"


MUTATING = {"store", "aug", "del", "mutcall", "rebind", "argmut", "inner-mut", "escape"}
OBSERVING = {"keyread", "aug", "read", "argmut", "argread", "copy", "inner-mut", "inner-call"}


def _is_mutable_value(v: Optional[ast.AST]) -> bool:
    if isinstance(v, (ast.Dict, ast.List, ast.Set, ast.ListComp, ast.DictComp, ast.SetComp)):
        return True
    if isinstance(v, ast.Call):
        n = call_name(v)
        return n in CONTAINER_CTORS
    return False


def _is_empty_container(v: Optional[ast.AST]) -> bool:
    if isinstance(v, ast.Dict):
        return not v.keys
    if isinstance(v, (ast.List, ast.Set)):
        return not v.elts
    if isinstance(v, ast.Call) and call_name(v) in CONTAINER_CTORS:
        return not v.args and not v.keywords
    return False


class Model:
    """Whole-repo use analysis of the process-global containers (built once per run, shared by the four rules)."""

    def __init__(self, ctx):
        self.ctx = ctx
        self.repo = ctx.repo
        self.cg = ctx.cg
        self.containers: Dict[str, Container] = {}
        self._locals: Dict[ast.AST, Set[str]] = {}
        self._glob_cache: Dict[Tuple[str, str], Optional[Tuple[Module, str]]] = {}
        self._pm_cache: Dict[Tuple[FunctionInfo, str], Optional[bool]] = {}
        self._attr_cls_cache: Dict[Tuple[ClassInfo, str], Tuple[Set[ClassInfo], bool]] = {}
        self._ret_cache: Dict[FunctionInfo, Set[ClassInfo]] = {}
        self._ext: Dict[FunctionInfo, List[Tuple[ast.Call, List[FunctionInfo], str]]] = {}
        self._self_bound: Dict[ClassInfo, Set[str]] = {}
        self._shadow_cache: Dict[Tuple[ClassInfo, str], bool] = {}
        self._class_attr_names: Set[str] = set()
        self._globals_declared: Set[Tuple[str, str]] = set()
        self.unresolved_attr_refs: List[str] = []
        self._enumerate()
        self._collect_refs()

    # ---- enumeration ----------------------------------------------------------------------------------------------------
    def _add(self, c: Container):
        self.containers.setdefault(c.key, c)
        return self.containers[c.key]

    def _enumerate(self):
        repo = self.repo
        for m in repo.modules.values():
            for name, sts in m.assigns.items():
                for st in sts:
                    v = getattr(st, "value", None)
                    tg = st.targets if isinstance(st, ast.Assign) else [st.target]
                    if _is_mutable_value(v) and any(isinstance(t, ast.Name) and t.id == name for t in tg):
                        self._add(Container(f"{m.rel}::{name}", "module", m, name, value=v, stmt=st))
            for ci in m.classes.values():
                for name, v in ci.attrs.items():
                    if _is_mutable_value(v):
                        self._add(Container(f"{m.rel}::{ci.name}.{name}", "class", m, name, cls=ci, value=v, stmt=parent(v)))
        # class attributes stored through the class object, or augmented through an instance
        for f in repo.functions.values():
            for n in walk_shallow(f.node):
                if not (isinstance(n, ast.Attribute) and isinstance(n.ctx, ast.Store)):
                    continue
                owner = None
                k = self._class_of_base(f, n.value)
                if k is not None:
                    owner = self._attr_owner(k, n.attr) or k
                elif isinstance(parent(n), ast.AugAssign) and self._is_self(f, n.value):
                    at = repo.lookup_attr(f.cls, n.attr) if f.cls is not None else None
                    if at is not None and not self._instance_shadow(f.cls, n.attr):
                        owner = at[0]
                if owner is None:
                    continue
                at = repo.lookup_attr(owner, n.attr)
                v = at[1] if at else None
                self._add(Container(f"{owner.module.rel}::{owner.name}.{n.attr}", "class", owner.module, n.attr, cls=owner,
                                    value=v, stmt=parent(v) if v is not None else owner.node, mutable_value=_is_mutable_value(v)))
        # module-level names of any value that a function re-binds through a `global` statement
        for f in repo.functions.values():
            for n in walk_shallow(f.node):
                if isinstance(n, ast.Global):
                    for name in n.names:
                        self._globals_declared.add((f.module.name, name))
                        sts = f.module.assigns.get(name) or []
                        v = getattr(sts[-1], "value", None) if sts else None
                        self._add(Container(f"{f.module.rel}::{name}", "module", f.module, name, value=v,
                                            stmt=sts[-1] if sts else f.module.tree, mutable_value=_is_mutable_value(v)))
        # mutable default arguments
        for f in repo.functions.values():
            a = f.node.args
            pos = a.posonlyargs + a.args
            pairs = list(zip(pos[len(pos) - len(a.defaults):], a.defaults)) + \
                [(x, d) for x, d in zip(a.kwonlyargs, a.kw_defaults) if d is not None]
            for arg, d in pairs:
                if _is_mutable_value(d):
                    self._add(Container(f"{f.qual}::<default of {arg.arg}>", "default", f.module, arg.arg, value=d, stmt=f.node, owner=f))
        self._class_attr_names = {c.name for c in self.containers.values() if c.kind == "class"}
        # pseudo containers
        self.sys_modules = self._add(Container("sys::modules", "sys", None, "modules"))
        self.sys_path = self._add(Container("sys::path", "sys", None, "path"))

    # ---- small resolvers -------------------------------------------------------------------------------------------------
    def _is_self(self, f: Optional[FunctionInfo], e: ast.AST) -> bool:
        return f is not None and f.cls is not None and not f.is_static and not f.is_classmethod \
            and isinstance(e, ast.Name) and e.id == f.self_name

    def _class_of_base(self, f: Optional[FunctionInfo], e: ast.AST) -> Optional[ClassInfo]:
        """`e` evaluates to a class object: Name of a class, `cls` of a classmethod, type(self), self.__class__."""
        m = f.module if f is not None else None
        if isinstance(e, ast.Name):
            if f is not None and f.cls is not None and f.is_classmethod and e.id == f.self_name:
                return f.cls
            if f is not None and e.id in self.func_locals(f):
                return None
            r = self.repo.resolve_name(m, e.id) if m is not None else None
            return r if isinstance(r, ClassInfo) else None
        if isinstance(e, ast.Attribute):
            if e.attr == "__class__" and self._is_self(f, e.value):
                return f.cls
            r = self.repo.resolve_expr(m, e) if m is not None else None
            return r if isinstance(r, ClassInfo) else None
        if isinstance(e, ast.Call) and isinstance(e.func, ast.Name) and e.func.id == "type" and len(e.args) == 1 \
                and self._is_self(f, e.args[0]):
            return f.cls
        return None

    def _attr_owner(self, k: ClassInfo, attr: str) -> Optional[ClassInfo]:
        at = self.repo.lookup_attr(k, attr)
        return at[0] if at else None

    def _self_bound_attrs(self, c: ClassInfo) -> Set[str]:
        """Attributes that some own method of class c binds by a plain `self.attr = ...`."""
        got = self._self_bound.get(c)
        if got is not None:
            return got
        out: Set[str] = set()
        for g in c.methods.values():
            if g.self_name is None or g.is_classmethod:
                continue
            for n in walk_shallow(g.node):
                if isinstance(n, (ast.Assign, ast.AnnAssign)):
                    tg = n.targets if isinstance(n, ast.Assign) else [n.target]
                    for t in tg:
                        for x in ast.walk(t):
                            if isinstance(x, ast.Attribute) and isinstance(x.value, ast.Name) \
                                    and x.value.id == g.self_name and isinstance(x.ctx, ast.Store):
                                out.add(x.attr)
        self._self_bound[c] = out
        return out

    def _instance_shadow(self, k: ClassInfo, attr: str) -> bool:
        """Some method of the class family binds `self.attr = ...` (then `self.attr` names the instance attribute)."""
        key = (k, attr)
        if key not in self._shadow_cache:
            fam = set(k.mro) | set(self.repo.subclasses(k))
            self._shadow_cache[key] = any(attr in self._self_bound_attrs(c) for c in fam)
        return self._shadow_cache[key]

    def func_locals(self, f: FunctionInfo) -> Set[str]:
        node = f.node
        if node in self._locals:
            return self._locals[node]
        out = set(f.params)
        glob = set()
        for n in walk_shallow(node):
            if isinstance(n, (ast.Global, ast.Nonlocal)):
                glob |= set(n.names)
            elif isinstance(n, ast.Name) and isinstance(n.ctx, (ast.Store, ast.Del)):
                out.add(n.id)
            elif isinstance(n, (ast.FunctionDef, ast.AsyncFunctionDef, ast.ClassDef)):
                out.add(n.name)
            elif isinstance(n, (ast.Import, ast.ImportFrom)):
                for a in n.names:
                    out.add(a.asname or a.name.split(".")[0])
            elif isinstance(n, ast.ExceptHandler) and n.name:
                out.add(n.name)
        out -= glob
        self._locals[node] = out
        return out

    def _shadowed(self, f: Optional[FunctionInfo], name: str) -> bool:
        g = f
        while g is not None:
            if name in self.func_locals(g):
                return True
            g = g.parent
        return False

    def resolve_global(self, m: Module, name: str, depth: int = 0) -> Optional[Tuple[Module, str]]:
        """Module-level *data* binding that `name` denotes in module m (following `from x import name [as y]`)."""
        k = (m.name, name)
        if k in self._glob_cache:
            return self._glob_cache[k]
        res = None
        if depth <= 8:
            if (name in m.assigns or (m.name, name) in self._globals_declared) and name not in m.classes and name not in m.functions:
                res = (m, name)
            elif name in m.imports:
                src, sym = m.imports[name]
                tm = self.repo.modules.get(src)
                if tm is not None and sym not in (None, "*"):
                    res = self.resolve_global(tm, sym, depth + 1)
            else:
                for key, (src, sym) in m.imports.items():
                    if sym == "*":
                        tm = self.repo.modules.get(src)
                        if tm is not None:
                            res = self.resolve_global(tm, name, depth + 1)
                            if res is not None:
                                break
        self._glob_cache[k] = res
        return res

    def container_of_expr(self, f: Optional[FunctionInfo], m: Module, e: ast.AST) -> Optional[Container]:
        """The global container that expression `e` (Name / Attribute) denotes, or None."""
        if isinstance(e, ast.Name):
            if self._shadowed(f, e.id):
                if f is not None and e.id in f.params:
                    c = self.containers.get(f"{f.qual}::<default of {e.id}>")
                    return c
                return None
            r = self.resolve_global(m, e.id)
            if r is not None:
                return self.containers.get(f"{r[0].rel}::{r[1]}")
            return None
        if isinstance(e, ast.Attribute):
            # sys.modules / sys.path
            if isinstance(e.value, ast.Name) and not self._shadowed(f, e.value.id) and m.imports.get(e.value.id) == ("sys", None):
                if e.attr == "modules":
                    return self.sys_modules
                if e.attr == "path":
                    return self.sys_path
                return None
            # module.attr
            base = self.repo.resolve_expr(m, e.value) if isinstance(e.value, (ast.Name, ast.Attribute)) and not \
                (isinstance(e.value, ast.Name) and self._shadowed(f, e.value.id)) else None
            if isinstance(base, Module):
                r = self.resolve_global(base, e.attr)
                if r is not None:
                    return self.containers.get(f"{r[0].rel}::{r[1]}")
                return None
            # Class.attr / cls.attr / type(self).attr / self.__class__.attr
            if e.attr not in self._class_attr_names:
                return None
            k = self._class_of_base(f, e.value)
            if k is None and self._is_self(f, e.value):
                if self._instance_shadow(f.cls, e.attr):
                    return None
                k = f.cls
            if k is None and f is not None and isinstance(e.value, (ast.Name, ast.Call, ast.Attribute)):
                try:
                    ks = self.cg.expr_classes(f, e.value)
                except Exception:
                    ks = set()
                for kk in ks:
                    ow = self._attr_owner(kk, e.attr)
                    if ow is not None and not self._instance_shadow(kk, e.attr):
                        c = self.containers.get(f"{ow.module.rel}::{ow.name}.{e.attr}")
                        if c is not None:
                            return c
                return None
            if k is not None:
                ow = self._attr_owner(k, e.attr)
                if ow is not None:
                    return self.containers.get(f"{ow.module.rel}::{ow.name}.{e.attr}")
        return None

    # ---- reference collection ------------------------------------------------------------------------------------------------
    def _collect_refs(self):
        class_attr_names = self._class_attr_names
        for m in self.repo.modules.values():
            for n in ast.walk(m.tree):
                if not isinstance(n, (ast.Name, ast.Attribute)):
                    continue
                f = self.repo.enclosing_function(n)
                if f is None and any(isinstance(a, (ast.FunctionDef, ast.AsyncFunctionDef, ast.Lambda)) for a in ancestors(n)):
                    f = self._enclosing_fi(n)
                c = self.container_of_expr(f, m, n)
                if c is None:
                    if isinstance(n, ast.Attribute) and n.attr in class_attr_names and not n.attr.startswith("__") \
                            and not self._is_self(f, n.value) and self._class_of_base(f, n.value) is None \
                            and not (isinstance(n.value, ast.Name) and isinstance(self.repo.resolve_name(m, n.value.id), (Module, ClassInfo))):
                        self.unresolved_attr_refs.append(f"{m.rel}:{n.lineno} {norm(n)}")
                    continue
                # a Name that is the value of an Attribute which itself denotes a container (sys in sys.modules) is not a ref
                self._use(c, f, m, n, alias_depth=0)
        # exec(..., globals()) / globals() writes
        for f in self.repo.functions.values():
            for n in walk_shallow(f.node):
                if isinstance(n, ast.Call) and isinstance(n.func, ast.Name) and n.func.id == "globals" and not n.args:
                    key = f"{f.module.rel}::<module namespace>"
                    c = self._add(Container(key, "namespace", f.module, "<module namespace>", stmt=f.module.tree))
                    p = parent(n)
                    how = "read"
                    if isinstance(p, ast.Call) and call_name(p) == "exec" and n in p.args[1:]:
                        how = "exec"
                    elif isinstance(p, ast.Attribute) and p.attr in MUTATORS:
                        how = "mutcall"
                    elif isinstance(p, ast.Subscript) and isinstance(p.ctx, (ast.Store, ast.Del)):
                        how = "store"
                    c.events.append(Event("mutcall" if how != "read" else "read", f, n, f.module, detail=f"globals() {how}: {norm(p) if p is not None else ''}"))

    def _enclosing_fi(self, n):
        for a in ancestors(n):
            if isinstance(a, (ast.FunctionDef, ast.AsyncFunctionDef)):
                return getattr(a, "_fi", None)
        return None

    # ---- use classification -----------------------------------------------------------------------------------------------
    def _ev(self, c: Optional[Container], sink: Optional[list], *a, **kw):
        e = Event(*a, **kw)
        if sink is not None:
            sink.append(e)
        elif c is not None:
            c.events.append(e)
        return e

    def _use(self, c, f, m, r, alias_depth=0, sink=None):
        """Classify one reference `r` (expression node that denotes container c, or an alias/parameter standing for it)."""
        ev = lambda *a, **kw: self._ev(c, sink, *a, **kw)
        p = parent(r)
        name = c.key if c is not None else "<param>"
        # --- definition / re-binding of the name itself
        if isinstance(r, (ast.Name, ast.Attribute)) and isinstance(r.ctx, ast.Store):
            if isinstance(p, ast.AugAssign) and p.target is r:
                if c is not None and not c.mutable_value and c.kind == "class" and self._is_self(f, getattr(r, "value", None)):
                    ev("read", f, p, m, detail="`self.x op= v` on an immutable class value: binds an instance attribute")
                else:
                    ev("mutcall", f, p, m, detail="augmented assignment of the container itself")
                return
            st = p
            while st is not None and not isinstance(st, ast.stmt):
                st = parent(st)
            if f is None and c is not None and c.kind in ("module",):
                ev("def", f, st, m)
                return
            val = getattr(st, "value", None)
            if isinstance(st, (ast.Assign, ast.AnnAssign)) and _is_empty_container(val):
                ev("reset", f, st, m, detail="re-bound to an empty container")
            elif isinstance(st, (ast.Assign, ast.AnnAssign)):
                ev("rebind", f, st, m, detail="re-bound")
            else:
                ev("rebind", f, st, m, detail="bound by " + type(st).__name__)
            return
        if isinstance(r, (ast.Name, ast.Attribute)) and isinstance(r.ctx, ast.Del):
            ev("rebind", f, p, m, detail="del of the binding")
            return
        # --- method call / attribute of the container
        if isinstance(p, ast.Attribute) and p.value is r:
            gp = parent(p)
            if isinstance(gp, ast.Call) and gp.func is p:
                meth = p.attr
                if meth == "clear":
                    ev("reset", f, gp, m, detail=".clear()")
                elif meth in MUTATORS:
                    if meth in ("pop", "setdefault") and gp.args:
                        ev("mutcall", f, gp, m, detail=f".{meth}()", key=gp.args[0])
                        self._inner(c, f, m, gp, sink, depth=0)
                    else:
                        ev("mutcall", f, gp, m, detail=f".{meth}()", value=gp.args[0] if gp.args else None)
                elif meth == "get":
                    ev("keyread", f, gp, m, detail=".get(key)", key=gp.args[0] if gp.args else None)
                    self._inner(c, f, m, gp, sink, depth=0)
                elif meth == "copy":
                    ev("copy", f, gp, m, detail=".copy() (shallow)")
                elif meth in ("values", "items"):
                    ev("read", f, gp, m, detail=f".{meth}()")
                    self._iter_inner(c, f, m, gp, meth, sink)
                elif meth in READ_METHODS:
                    ev("read", f, gp, m, detail=f".{meth}()")
                else:
                    raise AnalysisError(f"C13: unrecognised method `{meth}` called on global container {name} at {m.rel}:{r.lineno}")
            elif isinstance(p.ctx, ast.Load):
                ev("read", f, p, m, detail=f"attribute .{p.attr}")
            else:
                ev("inner-mut", f, p, m, detail=f"attribute store .{p.attr}")
            return
        # --- subscript
        if isinstance(p, ast.Subscript) and p.value is r:
            if isinstance(p.ctx, ast.Store):
                pp = parent(p)
                if isinstance(pp, ast.AugAssign) and pp.target is p:
                    ev("aug", f, pp, m, detail="c[k] op= v", key=p.slice, value=pp.value)
                else:
                    st = pp
                    while st is not None and not isinstance(st, ast.stmt):
                        st = parent(st)
                    val = st.value if isinstance(st, (ast.Assign, ast.AnnAssign)) and (p in getattr(st, "targets", [getattr(st, "target", None)])) else None
                    ev("store", f, st, m, detail="c[k] = v", key=p.slice, value=val)
            elif isinstance(p.ctx, ast.Del):
                ev("del", f, parent(p), m, detail="del c[k]", key=p.slice)
            else:
                ev("keyread", f, p, m, detail="c[k]", key=p.slice)
                self._inner(c, f, m, p, sink, depth=0)
            return
        # --- membership / comparison
        if isinstance(p, ast.Compare):
            if r in p.comparators and len(p.ops) == 1 and isinstance(p.ops[0], (ast.In, ast.NotIn)):
                ev("keyread", f, p, m, detail="k in c", key=p.left)
            else:
                ev("read", f, p, m, detail="comparison")
            return
        # --- passed to a call
        if isinstance(p, ast.keyword):
            call = parent(p)
            self._arg(c, f, m, r, call, None if p.arg is None else p.arg, None, sink)
            return
        if isinstance(p, ast.Call) and r in p.args:
            self._arg(c, f, m, r, p, None, p.args.index(r), sink)
            return
        if isinstance(p, ast.Starred):
            ev("read", f, p, m, detail="unpacked")
            return
        if isinstance(p, ast.Dict) and any(v is r and k is None for k, v in zip(p.keys, p.values)):
            # `{**c, ...}`: a fresh dict that holds the container's entries - the same thing as dict(c) / c.copy()
            ev("copy", f, p, m, detail="entries copied (shallow) by dict unpacking {**c}")
            return
        # --- iteration
        if isinstance(p, (ast.For, ast.AsyncFor)) and p.iter is r:
            ev("read", f, p, m, detail="iterated")
            return
        if isinstance(p, ast.comprehension) and p.iter is r:
            ev("read", f, p, m, detail="iterated")
            return
        # --- alias
        if isinstance(p, (ast.Assign, ast.AnnAssign)) and p.value is r:
            tg = p.targets if isinstance(p, ast.Assign) else [p.target]
            if f is not None and all(isinstance(t, ast.Name) for t in tg) and alias_depth < 3:
                ev("read", f, p, m, detail="bound to local alias " + ", ".join(t.id for t in tg))
                for t in tg:
                    for use in self._loads_reached(f, p, t.id):
                        self._use(c, f, m, use, alias_depth + 1, sink)
                return
            if f is not None and len(tg) == 1 and isinstance(tg[0], ast.Attribute) and self._is_self(f, tg[0].value) and alias_depth < 3:
                # `self.a = c`: every load of self.a in the class family stands for the container
                attr = tg[0].attr
                ev("read", f, p, m, detail=f"bound to attribute alias self.{attr}")
                fam = set(f.cls.mro) | set(self.repo.subclasses(f.cls))
                for k in sorted(fam, key=lambda k: k.qual):
                    for g in k.methods.values():
                        if g.self_name is None or g.is_classmethod:
                            continue
                        for n in walk_shallow(g.node):
                            if isinstance(n, ast.Attribute) and n.attr == attr and isinstance(n.ctx, ast.Load) and self._is_self(g, n.value):
                                self._use(c, g, g.module, n, alias_depth + 1, sink)
                return
            ev("escape", f, p, m, detail="stored into " + norm(tg[0]))
            return
        # --- formatting, arithmetic, truth value
        if isinstance(p, (ast.FormattedValue, ast.JoinedStr)):
            ev("read", f, p, m, detail="formatted")
            return
        if isinstance(p, ast.BinOp):
            ev("read", f, p, m, detail="operand of a binary operator (new object)")
            return
        if isinstance(p, (ast.If, ast.While, ast.UnaryOp, ast.BoolOp, ast.Assert)) or (isinstance(p, ast.IfExp) and p.test is r):
            ev("read", f, p, m, detail="truth value")
            return
        if isinstance(p, ast.Return):
            ev("escape", f, p, m, detail="returned to the caller")
            return
        if isinstance(p, ast.Expr):
            ev("read", f, p, m, detail="bare expression")
            return
        ev("escape", f, p if p is not None else r, m, detail=f"unrecognised use in {type(p).__name__}")

    def _loads_reached(self, f: FunctionInfo, defstmt: ast.AST, name: str) -> List[ast.Name]:
        out = []
        try:
            rd = self.ctx.rd(f)
        except Exception:
            rd = None
        for n in walk_shallow(f.node):
            if isinstance(n, ast.Name) and n.id == name and isinstance(n.ctx, ast.Load):
                if rd is None:
                    out.append(n)
                    continue
                st = stmt_of(rd.cfg, n)
                if st is None:
                    continue
                ds = rd.defs_reaching(n)
                if defstmt in ds or (isinstance(defstmt, ast.arguments) and defstmt in ds):
                    out.append(n)
        return out

    def _arg(self, c, f, m, r, call: ast.Call, kwname, pos, sink):
        ev = lambda *a, **kw: self._ev(c, sink, *a, **kw)
        cn = call_name(call)
        if isinstance(call.func, ast.Name) and cn in PURE_BUILTINS and not self._shadowed(f, cn) or \
                (isinstance(call.func, ast.Attribute) and dotted(call.func) in ("copy.deepcopy", "copy.copy")):
            ev("copy" if cn in COPY_MAKERS else "argread", f, call, m, detail=f"argument of {cn}()")
            return
        if cn == "exec":
            ev("mutcall", f, call, m, detail="namespace of exec()")
            return
        targets = []
        if f is not None:
            targets, how = self.ext_resolve(f, call)
        if not targets and isinstance(call.func, ast.Attribute) and cn in SHALLOW_READERS:
            ev("copy", f, call, m, detail=f"entries copied (shallow) by {norm(call.func)}()")
            return
        if not targets:
            ev("escape", f, call, m, detail=f"argument of unresolved call {norm(call.func)}()")
            return
        mutated, readonly = [], []
        for t in targets:
            pname = self._param_for(t, call, kwname, pos)
            if pname is None:
                mutated.append(f"{t.qualname}(?)")
                continue
            if self.param_mutated(t, pname):
                mutated.append(f"{t.qualname}({pname})")
            else:
                readonly.append(f"{t.qualname}({pname})")
        if mutated:
            ev("argmut", f, call, m, detail="mutated through parameter " + ", ".join(mutated))
        else:
            ev("argread", f, call, m, detail="read-only parameter " + ", ".join(readonly))

    def _param_for(self, t: FunctionInfo, call: ast.Call, kwname, pos) -> Optional[str]:
        a = t.node.args
        names = [x.arg for x in a.posonlyargs + a.args]
        if t.cls is not None and not t.is_static and names:
            bound = True
            # Class.method(obj, ...) passes self explicitly; constructor calls and obj.method() bind it
            if isinstance(call.func, ast.Attribute) and isinstance(self.repo.resolve_expr(t.module, call.func.value), ClassInfo) \
                    and t.name != "__init__":
                bound = False
            if bound:
                names = names[1:]
        if kwname is not None:
            if kwname in names or kwname in [x.arg for x in a.kwonlyargs]:
                return kwname
            return a.kwarg.arg if a.kwarg else None
        if pos is not None:
            if any(isinstance(x, ast.Starred) for x in call.args[:pos]):
                return None
            if pos < len(names):
                return names[pos]
            return a.vararg.arg if a.vararg else None
        return None

    def param_mutated(self, t: FunctionInfo, pname: str) -> bool:
        k = (t, pname)
        if k in self._pm_cache:
            v = self._pm_cache[k]
            return bool(v)           # in progress (None) counts as not mutated: a cycle adds no new mutation
        self._pm_cache[k] = None
        sink: List[Event] = []
        for use in self._loads_reached(t, t.node.args, pname):
            self._use(None, t, t.module, use, 0, sink)
        res = any(e.kind in MUTATING or e.kind == "reset" for e in sink)
        self._pm_cache[k] = res
        return res

    # ---- values reached through the container -----------------------------------------------------------------------------
    def _inner(self, c, f, m, e: ast.AST, sink, depth: int):
        """`e` evaluates to a value stored in the container: is that value mutated, called, or handed on?"""
        ev = lambda *a, **kw: self._ev(c, sink, *a, **kw)
        if depth > 3:
            return
        p = parent(e)
        if isinstance(p, ast.Subscript) and p.value is e:
            if isinstance(p.ctx, (ast.Store, ast.Del)):
                ev("inner-mut", f, p, m, detail="item store on a value read from the container")
            return
        if isinstance(p, ast.Attribute) and p.value is e:
            gp = parent(p)
            if isinstance(p.ctx, ast.Store):
                ev("inner-mut", f, p, m, detail=f"attribute store .{p.attr} on a value read from the container")
            elif isinstance(gp, ast.Call) and gp.func is p:
                if p.attr in MUTATORS:
                    ev("inner-mut", f, gp, m, detail=f".{p.attr}() on a value read from the container")
                elif p.attr not in READ_METHODS:
                    ev("inner-call", f, gp, m, detail=f".{p.attr}() on a value read from the container")
            return
        if isinstance(p, (ast.Assign, ast.AnnAssign)) and p.value is e and f is not None:
            tg = p.targets if isinstance(p, ast.Assign) else [p.target]
            names = []
            for t in tg:
                for x in ast.walk(t):
                    if isinstance(x, ast.Name) and isinstance(x.ctx, ast.Store):
                        names.append(x.id)
                    elif isinstance(x, (ast.Attribute, ast.Subscript)) and isinstance(x.ctx, ast.Store):
                        ev("inner-escape", f, p, m, detail="stored into " + norm(x))
            for nm in names:
                for use in self._loads_reached(f, p, nm):
                    self._inner(c, f, m, use, sink, depth + 1)
            return
        if isinstance(p, ast.AugAssign) and p.target is e:
            ev("inner-mut", f, p, m, detail="augmented assignment of a value read from the container")
            return
        if isinstance(p, ast.Return):
            ev("inner-escape", f, p, m, detail="returned to the caller")
            return
        if isinstance(p, (ast.Call, ast.keyword)):
            call = p if isinstance(p, ast.Call) else parent(p)
            if isinstance(p, ast.Call) and e is p.func:
                return
            cn = call_name(call)
            if isinstance(call.func, ast.Name) and cn in PURE_BUILTINS:
                return
            targets = self.ext_resolve(f, call)[0] if f is not None else []
            if not targets and isinstance(call.func, ast.Attribute) and cn in SHALLOW_READERS:
                return
            if not targets:
                ev("inner-escape", f, call, m, detail=f"argument of unresolved call {norm(call.func)}()")
                return
            for t in targets:
                pname = self._param_for(t, call, p.arg if isinstance(p, ast.keyword) else None,
                                        call.args.index(e) if isinstance(p, ast.Call) and e in call.args else None)
                if pname is None or self.param_mutated(t, pname):
                    ev("inner-mut", f, call, m, detail=f"mutated through parameter {t.qualname}({pname})")
            return

    def _iter_inner(self, c, f, m, call: ast.Call, meth: str, sink):
        p = parent(call)
        if isinstance(p, (ast.For, ast.AsyncFor)) and p.iter is call and f is not None:
            tgt = p.target
            val_t = tgt.elts[1] if meth == "items" and isinstance(tgt, ast.Tuple) and len(tgt.elts) == 2 else (tgt if meth == "values" else None)
            if isinstance(val_t, ast.Name):
                for use in self._loads_reached(f, p, val_t.id):
                    self._inner(c, f, m, use, sink, 1)

    # ---- receiver classes and the extended call graph ----------------------------------------------------------------------
    def recv_classes(self, f: FunctionInfo, e: ast.AST, depth: int = 0) -> Tuple[Set[ClassInfo], bool]:
        """(repo classes the expression may be an instance of, evidence that it is a builtin container / None)."""
        if depth > 4:
            return set(), False
        try:
            ks = set(self.cg.expr_classes(f, e))
        except Exception:
            ks = set()
        builtin = _is_mutable_value(e) or (isinstance(e, ast.Constant) and e.value is None) or \
            (isinstance(e, (ast.Name, ast.Attribute)) and self.container_of_expr(f, f.module, e) is not None)
        if ks:
            return ks, builtin
        if isinstance(e, ast.IfExp):
            a, x = self.recv_classes(f, e.body, depth + 1)
            b, y = self.recv_classes(f, e.orelse, depth + 1)
            return a | b, x or y
        if isinstance(e, ast.Name):
            try:
                defs = self.ctx.rd(f).defs_reaching(e)
            except Exception:
                defs = []
            out, bi = set(), False
            for d in defs:
                if isinstance(d, (ast.Assign, ast.AnnAssign)) and getattr(d, "value", None) is not None:
                    tg = d.targets if isinstance(d, ast.Assign) else [d.target]
                    if any(isinstance(t, ast.Name) and t.id == e.id for t in tg):
                        a, x = self.recv_classes(f, d.value, depth + 1)
                        out |= a
                        bi = bi or x
            return out, bi
        if isinstance(e, ast.Attribute) and self._is_self(f, e.value):
            return self.attr_classes(f.cls, e.attr)
        if isinstance(e, ast.Call):
            fn = e.func
            # a local name bound to a class object and then called
            if isinstance(fn, ast.Name) and self._shadowed(f, fn.id):
                out = set()
                try:
                    defs = self.ctx.rd(f).defs_reaching(fn)
                except Exception:
                    defs = []
                for d in defs:
                    if isinstance(d, (ast.Assign, ast.AnnAssign)) and d.value is not None:
                        out |= self.class_objects(f, d.value)
                return out, False
            out = set()
            for t in self.cg.resolve_call(f, e)[0]:
                out |= self.ret_classes(t)
            return out, False
        return set(), builtin

    def class_objects(self, f: FunctionInfo, e: ast.AST, depth: int = 0) -> Set[ClassInfo]:
        """Repository classes the expression may evaluate to *as class objects* (`A`, `A if c else B`, `x or A`, a local bound to
        one of these, an entry of a literal table of classes)."""
        if depth > 4 or e is None:
            return set()
        if isinstance(e, ast.IfExp):
            return self.class_objects(f, e.body, depth + 1) | self.class_objects(f, e.orelse, depth + 1)
        if isinstance(e, ast.BoolOp):
            out = set()
            for v in e.values:
                out |= self.class_objects(f, v, depth + 1)
            return out
        if isinstance(e, ast.Name) and self._shadowed(f, e.id):
            out = set()
            try:
                defs = self.ctx.rd(f).defs_reaching(e)
            except Exception:
                defs = []
            for d in defs:
                if isinstance(d, (ast.Assign, ast.AnnAssign)) and d.value is not None and \
                        any(isinstance(t, ast.Name) and t.id == e.id for t in (d.targets if isinstance(d, ast.Assign) else [d.target])):
                    out |= self.class_objects(f, d.value, depth + 1)
                elif isinstance(d, (ast.Import, ast.ImportFrom)):
                    r = self.repo.resolve_expr(f.module, e)       # a function-level import: the module model indexes it as well
                    if isinstance(r, ClassInfo):
                        out.add(r)
            return out
        if isinstance(e, (ast.Name, ast.Attribute)):
            r = self.repo.resolve_expr(f.module, e)
            return {r} if isinstance(r, ClassInfo) else set()
        if isinstance(e, ast.Dict):
            out = set()
            for v in e.values:
                out |= self.class_objects(f, v, depth + 1)
            return out
        if isinstance(e, ast.Subscript) and isinstance(e.value, ast.Dict):
            return self.class_objects(f, e.value, depth + 1)
        if isinstance(e, ast.Call) and isinstance(e.func, ast.Attribute) and e.func.attr == "get" and isinstance(e.func.value, ast.Dict):
            out = self.class_objects(f, e.func.value, depth + 1)
            for a in e.args[1:]:
                out |= self.class_objects(f, a, depth + 1)
            return out
        return set()

    def attr_classes(self, k: ClassInfo, attr: str) -> Tuple[Set[ClassInfo], bool]:
        key = (k, attr)
        if key in self._attr_cls_cache:
            return self._attr_cls_cache[key]
        self._attr_cls_cache[key] = (set(), False)
        out, bi = set(), False
        fam = set(k.mro) | set(self.repo.subclasses(k))
        for c in fam:
            for g in c.methods.values():
                if g.self_name is None:
                    continue
                for n in walk_shallow(g.node):
                    if isinstance(n, ast.Assign):
                        for t in n.targets:
                            if isinstance(t, ast.Attribute) and t.attr == attr and isinstance(t.value, ast.Name) and t.value.id == g.self_name:
                                a, x = self.recv_classes(g, n.value, 1)
                                out |= a
                                bi = bi or x
        self._attr_cls_cache[key] = (out, bi)
        return out, bi

    def ret_classes(self, t: FunctionInfo) -> Set[ClassInfo]:
        if t in self._ret_cache:
            return self._ret_cache[t]
        self._ret_cache[t] = set()
        out = set(self.cg._ann_classes(t.module, t.node.returns))
        if t.name == "__init__" and t.cls is not None:
            out.add(t.cls)
        for n in walk_shallow(t.node):
            if isinstance(n, ast.Return) and n.value is not None:
                out |= self.recv_classes(t, n.value, 1)[0]
        self._ret_cache[t] = out
        return out

    def ext_resolve(self, f: FunctionInfo, call: ast.Call) -> Tuple[List[FunctionInfo], str]:
        """Engine resolution, extended for method names the engine never resolves by name (`x.clear()`, `x.update()` ...)
        when the receiver's class can be inferred from constructor calls / attribute assignments / return values."""
        targets, how = self.cg.resolve_call(f, call)
        if not targets and how == "unresolved-name" and isinstance(call.func, ast.Name) and self._shadowed(f, call.func.id):
            # a local name bound to a class object (`backend = TorchBackend ... backend(**kwargs)`)
            outs = []
            for k in self.recv_classes(f, call)[0]:
                init = self.repo.lookup_method(k, "__init__")
                if init is not None and init not in outs:
                    outs.append(init)
            return (outs, "local-class") if outs else (targets, how)
        if how == "by-name" and isinstance(call.func, ast.Attribute) and self._is_self(f, call.func.value):
            # `self.target_ir(...)` where target_ir is a class-level binding of a class / function, not a method
            at = self.repo.lookup_attr(f.cls, call.func.attr)
            if at is not None and isinstance(at[1], (ast.Name, ast.Attribute)):
                r = self.repo.resolve_expr(at[0].module, at[1])
                if isinstance(r, ClassInfo):
                    init = self.repo.lookup_method(r, "__init__")
                    return ([init] if init else []), "class-attr"
                if isinstance(r, FunctionInfo):
                    return [r], "class-attr"
        if targets or how != "external" or not isinstance(call.func, ast.Attribute) or call.func.attr not in BUILTIN_METHODS:
            return targets, how
        if self.repo.external_name(f.module, call.func) is not None:
            return targets, how
        ks, builtin = self.recv_classes(f, call.func.value)
        outs: List[FunctionInfo] = []
        for k in ks:
            for sub in [k] + self.repo.subclasses(k, strict=True):
                t = self.repo.lookup_method(sub, call.func.attr)
                if t is not None and t not in outs:
                    outs.append(t)
        if outs:
            return outs, "typed-attr"
        return [], how

    def ext_calls(self, f: FunctionInfo):
        if f not in self._ext:
            self._ext[f] = [(c, *self.ext_resolve(f, c)) if ((not ts and how in ("external", "unresolved-name")) or how == "by-name")
                            else (c, ts, how) for c, ts, how in self.cg.calls.get(f, [])]
        return self._ext[f]

    def ext_callees(self, f: FunctionInfo) -> List[FunctionInfo]:
        out = []
        for _, ts, _ in self.ext_calls(f):
            for t in ts:
                if t not in out:
                    out.append(t)
        for g in f.nested.values():
            if g not in out:
                out.append(g)
        return out

    def reachable(self, roots) -> Set[FunctionInfo]:
        seen: Set[FunctionInfo] = set()
        stack = list(roots)
        while stack:
            g = stack.pop()
            if g in seen:
                continue
            seen.add(g)
            stack.extend(self.ext_callees(g))
        return seen

    def private_unit(self, f: FunctionInfo, hops: int = 2) -> Set[FunctionInfo]:
        """Functions that form one unit of code with f through private helpers: the private (`_name`) functions f calls, and - when
        f is private itself - the functions that call f (each up to `hops` steps)."""
        cache = self.__dict__.setdefault("_unit_cache", {})
        if f in cache:
            return cache[f]
        private = lambda h: h.name.startswith("_") and not h.name.startswith("__")
        out, frontier = set(), {f}
        for _ in range(hops):
            nxt = set()
            for x in frontier:
                for t in self.ext_callees(x):
                    if private(t) and t not in out and t != f:
                        nxt.add(t)
                if private(x):
                    for h, _cs in self.ctx.cg.call_sites_of(x):
                        if h not in out and h != f:
                            nxt.add(h)
            out |= nxt
            frontier = nxt
        cache[f] = out
        return out

    def reaching_to(self, goals: Set[FunctionInfo]) -> Set[FunctionInfo]:
        """All functions from which a function in `goals` is reachable."""
        rev: Dict[FunctionInfo, Set[FunctionInfo]] = {}
        for g in self.repo.functions.values():
            for t in self.ext_callees(g):
                rev.setdefault(t, set()).add(g)
        seen = set()
        stack = list(goals)
        while stack:
            g = stack.pop()
            if g in seen:
                continue
            seen.add(g)
            stack.extend(rev.get(g, ()))
        return seen


def model(ctx) -> Model:
    m = getattr(ctx, "_c13_model", None)
    if m is None:
        m = Model(ctx)
        ctx._c13_model = m
    return m


def _dump(ctx):
    md = model(ctx)
    for k, c in sorted(md.containers.items()):
        print(f"== {k} [{c.kind}] pinned={TABLE.get(k, ('-',))[0]}")
        for e in c.events:
            print(f"     {e.kind:12s} {e.where:70s} {e.detail}")
    print("unresolved attr refs:", md.unresolved_attr_refs)



# =====================================================================================================================
# facts per container
# =====================================================================================================================

@dataclass
class Facts:
    runtime: List[Event]
    muts: List[Event]            # mutations at run time (not import time), resets excluded
    resets: List[Event]
    reset_reachable: List[Event]
    pure_cache: bool
    cache_funcs: List[FunctionInfo]
    klass: str                   # effective class: constant | cache | state | registry | exception
    pin: Optional[Tuple[str, str]]


def _reach_clear(ctx) -> Set[FunctionInfo]:
    md = model(ctx)
    r = getattr(md, "_reach_clear", None)
    if r is None:
        r = md.reachable([ctx.repo.get_func(*RESET_ROOT)])
        md._reach_clear = r
    return r


def _uses_through_parameter(md, c: Container, e: Event) -> Optional[List[Event]]:
    """For `callee(..., c, ...)` where the callee mutates that parameter: the callee's own uses of the parameter, provided they are
    only keyed reads, keyed stores / removals and plain reads (then the callee is a cache function over c); else None."""
    call = e.node
    slots = [(a, None, i) for i, a in enumerate(call.args)] + [(k.value, k.arg, None) for k in call.keywords if k.arg is not None]
    slots = [(a, kw, pos) for a, kw, pos in slots if isinstance(a, (ast.Name, ast.Attribute)) and md.container_of_expr(e.f, e.module, a) is c]
    targets = md.ext_resolve(e.f, call)[0]
    if len(slots) != 1 or len(targets) != 1:
        return None
    t = targets[0]
    pn = md._param_for(t, call, slots[0][1], slots[0][2])
    if pn is None or pn not in t.params:
        return None
    sink: List[Event] = []
    for use in md._loads_reached(t, t.node.args, pn):
        md._use(None, t, t.module, use, 0, sink)
    ok_kinds = {"keyread", "store", "read", "argread", "del"}
    if not sink or not all(x.kind in ok_kinds or (x.kind == "mutcall" and x.detail == ".pop()" and x.key is not None) for x in sink):
        return None
    if not any(x.kind == "store" for x in sink) or not any(x.kind == "keyread" for x in sink):
        return None
    return sink


def facts_of(ctx, c: Container) -> Facts:
    md = model(ctx)
    cached = getattr(c, "_facts", None)
    if cached is not None:
        return cached
    runtime = [e for e in c.events if e.f is not None]
    # the container handed to a callee that looks entries up / stores entries through its parameter (`load(path, cache=file_cache)`):
    # the callee's keyed uses of that parameter are uses of the container - it may be the lookup half and the store half of a cache
    expanded = []
    for e in runtime:
        sub = _uses_through_parameter(md, c, e) if e.kind == "argmut" and isinstance(e.node, ast.Call) else None
        expanded += sub if sub is not None else [e]
    runtime = expanded
    if c.kind == "default":      # re-binding the parameter name is local
        runtime = [e for e in runtime if e.kind not in ("reset", "rebind")]
    esc = [e for e in runtime if e.kind == "escape"]
    # for the interpreter's tables the reset of "our" entry is the removal of one key: `del c[k]` or `c.pop(k[, default])`
    is_reset = lambda e: e.kind == "reset" or (c.kind == "sys" and (e.kind == "del" or (e.kind == "mutcall" and e.detail == ".pop()" and e.key is not None)))
    resets = [e for e in runtime if is_reset(e)]
    muts = [e for e in runtime if e.kind in MUTATING and e.kind != "escape" and not is_reset(e)]
    keyread_fs = {e.f for e in runtime if e.kind == "keyread"}
    # a cache's miss branch (or its lookup) may live in a private helper of the function that does the other half
    keyread_fs = keyread_fs | {h for f in keyread_fs for h in md.private_unit(f)}
    # a content-keyed cache: entries are only ever added next to a keyed read - or removed (`del c[k]`, `c.pop(k[, d])`: an
    # invalidation cannot produce a stale hit)
    removal = lambda e: e.kind == "del" or (e.kind == "mutcall" and e.detail == ".pop()" and e.key is not None)
    pure = any(e.kind == "store" for e in muts) and all((e.kind == "store" and e.f in keyread_fs) or removal(e) for e in muts) and c.kind != "sys"
    if esc and c.kind != "namespace" and (not muts or pure):
        # an unrecognised use only matters where it could turn a constant table / pure cache into mutable state
        e = esc[0]
        raise AnalysisError(f"C13: global container {c.key} is used in a form the use analysis does not recognise "
                            f"({e.detail}) at {e.where}; cannot decide whether it is mutated there")
    cache_funcs = []
    for e in muts:
        if e.kind == "store" and e.f in keyread_fs and e.f not in cache_funcs:
            cache_funcs.append(e.f)
    rc = _reach_clear(ctx)
    reachable = [e for e in resets if e.f in rc]
    pin = TABLE.get(c.key)
    if c.kind == "namespace" or (pin is not None and pin[0] in ("namespace", "search-path")):
        klass = "exception"
    elif not muts:
        klass = "constant"
    elif pin is not None and pin[0] == "registry":
        klass = "registry"
    elif pure and (pin is None or pin[0] == "cache"):
        if any(e.kind == "inner-call" for e in runtime):
            e = [x for x in runtime if x.kind == "inner-call"][0]
            raise AnalysisError(f"C13: a method of unknown effect is called on a value read from the cache {c.key} at {e.where} "
                                f"({e.detail}); cannot decide whether cached values stay unchanged")
        klass = "cache"
    else:
        klass = "state"
    fx = Facts(runtime, muts, resets, reachable, pure, cache_funcs, klass, pin)
    c._facts = fx
    return fx


def _sites(evs: List[Event], limit=6) -> List[str]:
    out = [f"{e.kind} {e.where} {e.detail}".strip() for e in evs]
    return out[:limit] + ([f"... {len(out) - limit} more"] if len(out) > limit else [])


# =====================================================================================================================
# R1  inventory
# =====================================================================================================================

def _reset_before_every_use(ctx, c: Container) -> bool:
    """Every function that holds a state-observing use of c resets c, on every path, before its first observing use (callees that
    observe it included): whatever an earlier call or compilation left in c is never seen - scratch state."""
    an = ResetBeforeUse(ctx, c)
    users = set(an.use_nodes)
    return bool(users) and all(an.unsafe(g) is None for g in sorted(users, key=lambda g: g.qual))


def r1_inventory(ctx, rid):
    md = model(ctx)
    repo = ctx.repo
    reach_public = md.reachable([repo.get_func(*e) for e in PUBLIC_ENTRIES])
    seen_keys = set()
    for key in sorted(md.containers):
        c = md.containers[key]
        if c.kind == "sys" and not c.events:
            continue
        seen_keys.add(key)
        fx = facts_of(ctx, c)
        construct = f"{key}::process-global state"
        pinned = fx.pin[0] if fx.pin else "not pinned"
        facts = {"defined": c.loc, "pinned_class": pinned, "pinned_reason": fx.pin[1] if fx.pin else None,
                 "derived_class": fx.klass, "mutations": _sites(fx.muts), "resets": _sites(fx.resets),
                 "resets_reachable_from_CircuitTemplate.clear": _sites(fx.reset_reachable),
                 "reads": len([e for e in fx.runtime if e.kind in ("read", "keyread", "argread", "copy")])}
        kw = dict(construct=construct, loc=c.loc)
        if fx.klass == "exception":
            if fx.pin is None:
                ctx.violation(rid, None, None, f"new write into a module namespace: `{key}` is filled through exec(..., globals()) / "
                              f"globals() at {_sites(fx.runtime, 3)}; names left there by one model are visible to code evaluated for "
                              f"the next one and nothing removes them", facts, **kw)
            else:
                ctx.info(rid, None, None, f"{key}: {fx.pin[0]} (frozen exception): {fx.pin[1]}", facts, **kw)
            continue
        if fx.klass == "constant":
            what = "never mutated after import: constant table"
            if c.kind == "class" and not c.mutable_value:
                what = "class-level value only re-bound per instance (`self.x op= v`): the class value is constant"
            note = "" if fx.pin is None or fx.pin[0] in ("constant", "registry") else f" (pinned as {fx.pin[0]}: no longer mutated)"
            ctx.ok(rid, None, None, f"{key}: {what}{note}", facts, nontrivial=fx.pin is not None, **kw)
            continue
        if fx.klass == "registry":
            bad = [e for e in fx.muts if e.f in reach_public]
            if bad:
                ctx.violation(rid, None, None, f"registry `{key}` is mutated at {_sites(bad, 3)}, which a compile entry reaches: it is no "
                              f"longer filled only at import/registration time, so a compilation can change what the next one looks up, "
                              f"and no reset restores it", facts, **kw)
            else:
                ctx.ok(rid, None, None, f"{key}: registry; its mutators ({', '.join(sorted({e.f.qualname for e in fx.muts}))}) are "
                       f"unreachable from every compile entry", facts, **kw)
            continue
        if fx.klass == "cache":
            ctx.ok(rid, None, None, f"{key}: content-keyed cache (only `c[k] = v` stores next to a keyed read in "
                   f"{', '.join(g.qualname for g in fx.cache_funcs)}; stored values are not modified afterwards); C13-R2 decides that "
                   f"the key determines the value" + ("" if fx.pin else " (not pinned: new cache)"), facts, **kw)
            continue
        # mutable state
        mutators_reached = [e for e in fx.muts if e.f in reach_public]
        if not fx.reset_reachable and not mutators_reached:
            ctx.ok(rid, None, None, f"{key}: mutated only by {', '.join(sorted({e.f.qualname for e in fx.muts}))}, which no compile entry "
                   f"reaches (registration-time state, not pinned): it cannot carry anything from one compilation to the next", facts, **kw)
        elif fx.reset_reachable:
            ctx.ok(rid, None, None, f"{key}: per-compilation state; reset by {', '.join(sorted({e.f.qualname for e in fx.reset_reachable}))}"
                   f", reachable from CircuitTemplate.clear" + ("" if fx.pin else " (not pinned: new container)"), facts, **kw)
        elif fx.resets and _reset_before_every_use(ctx, c):
            ctx.ok(rid, None, None, f"{key}: scratch state - in every function that observes it "
                   f"({', '.join(sorted({e.f.qualname for e in fx.runtime if e.kind in OBSERVING}))}) a reset precedes the first observing use on "
                   f"every path, so nothing written earlier is ever seen" + ("" if fx.pin else " (not pinned: new container)"), facts, **kw)
        else:
            how = {"module": "module-level", "class": "class-level", "default": "mutable default argument", "sys": "interpreter-level"}[c.kind]
            ctx.violation(rid, None, None, f"process-global mutable state `{key}` ({how}, "
                          f"{'pinned as ' + fx.pin[0] if fx.pin else 'not in the pinned inventory'}) is mutated at {_sites(fx.muts, 3)} and no "
                          f"clear()/re-binding of it is reachable from CircuitTemplate.clear"
                          f"{' (resets exist only in ' + ', '.join(sorted({e.f.qualname for e in fx.resets})) + ')' if fx.resets else ''}: "
                          f"what one compilation leaves in it is seen by the next", facts, **kw)
    for key, (klass, why) in sorted(TABLE.items()):
        if key not in seen_keys:
            ctx.info(rid, None, None, f"pinned container {key} ({klass}) no longer exists", construct=f"{key}::process-global state", loc=key.split("::")[0])
    if md.unresolved_attr_refs:
        ctx.notes.append(f"{rid}: attribute references with the name of a class-level container whose receiver could not be resolved: "
                         f"{md.unresolved_attr_refs[:10]}")
    # instance-level containers that a reachable clear() leaves untouched (information: the object is discarded)
    for g in sorted(_reach_clear(ctx), key=lambda g: g.qual):
        if g.name != "clear" or g.cls is None:
            continue
        init = g.cls.methods.get("__init__")
        if init is None or init.self_name is None:
            continue
        made = {}
        for n in walk_shallow(init.node):
            if isinstance(n, ast.Assign) and _is_mutable_value(n.value):
                for t in n.targets:
                    if isinstance(t, ast.Attribute) and isinstance(t.value, ast.Name) and t.value.id == init.self_name:
                        made[t.attr] = n
        touched = set()
        for n in walk_shallow(g.node):
            if isinstance(n, ast.Attribute) and isinstance(n.value, ast.Name) and n.value.id == g.self_name:
                touched.add(n.attr)
        left = sorted(set(made) - touched)
        if left:
            ctx.info(rid, g, g.node, f"{g.qualname} does not touch the instance containers {left} (instance state lives and dies with "
                     f"the object; listed, not armed)", label="instance containers not cleared")
    # what the other documented resets reach (evidence only)
    for rel, qn in (("pyrates/utility.py", "clear"), ("pyrates/utility.py", "clear_frontend_caches")):
        g = repo.find_func(rel, qn)
        if g is not None:
            r = md.reachable([g])
            hit = sorted(k for k, c in md.containers.items() if any(e.kind == "reset" and e.f in r for e in c.events))
            ctx.notes.append(f"{rid}: {qn} reaches resets of {hit}")


# =====================================================================================================================
# R2  the cache key determines the cached value
# =====================================================================================================================

class Slicer:
    """Backward def-use slice of an expression inside one function down to *access-path roots*:
    parameters (`path`), attribute paths on parameters (`self._fname`) and global mutable state (`global:<key>`).
    Calls are functions of their receiver and arguments; a method call on an object depends on the whole object."""

    def __init__(self, ctx, f: FunctionInfo, ignore_global: Optional[str] = None):
        self.ctx, self.f, self.md = ctx, f, model(ctx)
        self.rd = ctx.rd(f)
        self.locals = self.md.func_locals(f)
        self.ignore_global = ignore_global
        self._contrib: Dict[str, List[ast.AST]] = {}
        self._attr_stores: Dict[str, List[ast.AST]] = {}
        self._index_contributions()

    def _base_name(self, e):
        while isinstance(e, (ast.Attribute, ast.Subscript)):
            e = e.value
        return e.id if isinstance(e, ast.Name) else None

    def _index_contributions(self):
        """Statements that put data into an object bound to a local name after its definition."""
        for n in walk_shallow(self.f.node):
            if isinstance(n, (ast.Assign, ast.AugAssign, ast.AnnAssign)):
                tg = n.targets if isinstance(n, ast.Assign) else [n.target]
                for t in tg:
                    for x in ([t] if not isinstance(t, (ast.Tuple, ast.List)) else t.elts):
                        if isinstance(x, (ast.Attribute, ast.Subscript)):
                            b = self._base_name(x)
                            if isinstance(x, ast.Attribute) and dotted(x) is not None and n.value is not None:
                                self._attr_stores.setdefault(dotted(x), []).append(n.value)
                            if b is not None and n.value is not None:
                                self._contrib.setdefault(b, []).append(n.value)
                                if isinstance(x, ast.Subscript):
                                    self._contrib[b].append(x.slice)
            elif isinstance(n, ast.Call):
                if isinstance(n.func, ast.Attribute) and n.func.attr in MUTATORS:
                    b = self._base_name(n.func.value)
                    if b is not None:
                        self._contrib.setdefault(b, []).extend(list(n.args) + [k.value for k in n.keywords])
                if isinstance(n.func, ast.Name) and n.func.id == "exec" and len(n.args) >= 2:
                    for ns in n.args[1:]:
                        b = self._base_name(ns)
                        if b is not None:
                            self._contrib.setdefault(b, []).append(n.args[0])

    def roots(self, e: Optional[ast.AST], env=None, seen=None) -> Set[str]:
        if e is None:
            return set()
        env = env or {}
        seen = seen if seen is not None else frozenset()
        R = lambda x: self.roots(x, env, seen)
        if isinstance(e, ast.Constant):
            return set()
        if isinstance(e, ast.Name):
            if e.id in env:
                return set(env[e.id])
            if self.md._shadowed(self.f, e.id):
                return self._name_roots(e, env, seen)
            c = self.md.container_of_expr(self.f, self.f.module, e)
            return self._global_root(c)
        if isinstance(e, ast.Attribute):
            c = self.md.container_of_expr(self.f, self.f.module, e)
            if c is not None:
                return self._global_root(c)
            d = dotted(e)
            if d is not None:
                head = d.split(".")[0]
                hn = e
                while isinstance(hn, ast.Attribute):
                    hn = hn.value
                if head not in env and head in self.f.params and all(isinstance(x, ast.arguments) for x in self.rd.defs_reaching(hn)):
                    # attribute path on an un-rebound parameter: a root of its own (plus what this function stores under that path)
                    out = {d}
                    for x in self._attr_stores.get(d, ()):
                        if ("attr", d) not in seen:
                            out |= self.roots(x, env, seen | {("attr", d)})
                    return out
            base = R(e.value)
            return {f"{p}.{e.attr}" if not p.startswith("global:") else p for p in base}
        if isinstance(e, ast.Call):
            out = set()
            if isinstance(e.func, ast.Attribute):
                out |= R(e.func.value)
            elif isinstance(e.func, ast.Name):
                if self.md._shadowed(self.f, e.func.id) and e.func.id not in self.f.nested:
                    out |= R(e.func)
            else:
                out |= R(e.func)
            for a in e.args:
                out |= R(a.value if isinstance(a, ast.Starred) else a)
            for k in e.keywords:
                out |= R(k.value)
            return out
        if isinstance(e, ast.Subscript):
            return R(e.value) | R(e.slice)
        if isinstance(e, (ast.Tuple, ast.List, ast.Set)):
            out = set()
            for x in e.elts:
                out |= R(x)
            return out
        if isinstance(e, ast.Dict):
            out = set()
            for x in list(e.keys) + list(e.values):
                out |= R(x)
            return out
        if isinstance(e, ast.BinOp):
            return R(e.left) | R(e.right)
        if isinstance(e, ast.BoolOp):
            out = set()
            for x in e.values:
                out |= R(x)
            return out
        if isinstance(e, ast.UnaryOp):
            return R(e.operand)
        if isinstance(e, ast.Compare):
            out = R(e.left)
            for x in e.comparators:
                out |= R(x)
            return out
        if isinstance(e, ast.IfExp):
            # data flow only: the test of `a if c else b` is control, exactly like the test of the equivalent if statement
            return R(e.body) | R(e.orelse)
        if isinstance(e, ast.JoinedStr):
            out = set()
            for x in e.values:
                out |= R(x)
            return out
        if isinstance(e, ast.FormattedValue):
            return R(e.value)
        if isinstance(e, ast.Starred):
            return R(e.value)
        if isinstance(e, ast.NamedExpr):
            return R(e.value)
        if isinstance(e, ast.Slice):
            return R(e.lower) | R(e.upper) | R(e.step)
        if isinstance(e, (ast.ListComp, ast.SetComp, ast.GeneratorExp, ast.DictComp)):
            env2 = dict(env)
            out = set()
            for g in e.generators:
                it = self.roots(g.iter, env2, seen)
                for x in ast.walk(g.target):
                    if isinstance(x, ast.Name):
                        env2[x.id] = it
                for cond in g.ifs:
                    out |= self.roots(cond, env2, seen)
            elts = [e.key, e.value] if isinstance(e, ast.DictComp) else [e.elt]
            for x in elts:
                out |= self.roots(x, env2, seen)
            return out
        if isinstance(e, ast.Lambda):
            return set()
        raise AnalysisError(f"C13-R2: expression form {type(e).__name__} not handled by the slicer in {self.f.qual}: {norm(e)}")

    def _global_root(self, c: Optional[Container]) -> Set[str]:
        if c is None or c.key == self.ignore_global:
            return set()
        fx = facts_of(self.ctx, c)
        if fx.klass in ("constant", "registry", "exception"):
            return set()
        if fx.klass == "cache":
            return set()              # a content-keyed cache (R2 decides its key): what is read from it is determined by the key used
        return {f"global:{c.key}"}

    def _name_roots(self, e: ast.Name, env, seen) -> Set[str]:
        out: Set[str] = set()
        defs = self.rd.defs_reaching(e)
        if not defs:
            # comprehension variable outside its env, or a closure variable of an enclosing function
            return {e.id}
        for d in defs:
            k = (id(d), e.id)
            if k in seen:                      # `seen` is the current slicing path (cycle guard), not a global visited set
                continue
            out |= self._def_roots(d, e.id, env, seen | {k})
        kc = ("contrib", e.id)
        if kc not in seen:
            for x in self._contrib.get(e.id, ()):
                out |= self.roots(x, env, seen | {kc})
        return out

    def _def_roots(self, d, name: str, env, seen) -> Set[str]:
        R = lambda x: self.roots(x, env, seen)
        if isinstance(d, ast.arguments):
            return {name}
        if isinstance(d, (ast.Assign, ast.AnnAssign)):
            if d.value is None:
                return set()
            tg = d.targets if isinstance(d, ast.Assign) else [d.target]
            for t in tg:
                if isinstance(t, (ast.Tuple, ast.List)) and isinstance(d.value, (ast.Tuple, ast.List)) and len(t.elts) == len(d.value.elts):
                    for te, ve in zip(t.elts, d.value.elts):
                        if isinstance(te, ast.Name) and te.id == name:
                            return R(ve)
            return R(d.value)
        if isinstance(d, ast.AugAssign):
            out = R(d.value)
            for dd in self.rd.defs_reaching_at(d, name):
                k = (id(dd), name)
                if k not in seen:
                    out |= self._def_roots(dd, name, env, seen | {k})
            return out
        if isinstance(d, (ast.For, ast.AsyncFor)):
            return R(d.iter)
        if isinstance(d, (ast.With, ast.AsyncWith)):
            out = set()
            for it in d.items:
                out |= R(it.context_expr)
            return out
        if isinstance(d, (ast.If, ast.While)):
            return R(d.test)
        return set()


def _covered(path: str, key_roots: Set[str]) -> bool:
    """`self._fname` is covered by `self`; `self` is not covered by `self._fname`."""
    parts = path.split(".")
    return any(".".join(parts[:i]) in key_roots for i in range(1, len(parts) + 1))


def _minimal(paths: Set[str]) -> List[str]:
    return sorted(p for p in paths if not any(q != p and _covered(p, {q}) for q in paths))


IMPORT_FUNCS = {"importlib.import_module", "__import__", "import_module"}


def _import_by_name_sites(ctx, md) -> List[Tuple[FunctionInfo, ast.Call, List[ast.AST], str]]:
    """(function, call, module-name expressions, shown text) of every import whose module name is computed."""
    import re
    from engine.util import fstring_template
    out = []
    for f in ctx.repo.all_functions():
        for n in walk_shallow(f.node):
            if not isinstance(n, ast.Call):
                continue
            d = dotted(n.func)
            if d == "exec" and n.args:
                tpl = fstring_template(n.args[0])
                if tpl is None:
                    continue
                mm = re.match(r"\s*(?:from\s+(\S+)\s+import\b|import\s+(\S+))", tpl)
                if not mm:
                    continue
                modtxt = mm.group(1) or mm.group(2)
                holes = re.findall(r"⟨(.*?)⟩", modtxt)
                if not holes:
                    continue        # a literal module name: process-constant
                exprs = [ast.parse(h, mode="eval").body for h in holes]
                # re-anchor the hole expressions at the original nodes so that reaching definitions can be queried
                orig = [v.value for v in ast.walk(n.args[0]) if isinstance(v, ast.FormattedValue)]
                keep = [o for o in orig if any(ast.dump(o) == ast.dump(x) for x in exprs)]
                out.append((f, n, keep[:len(exprs)] or orig, tpl))
            elif d is not None and (d in IMPORT_FUNCS or (ctx.repo.external_name(f.module, n.func) or "") in IMPORT_FUNCS) and n.args:
                if not isinstance(n.args[0], ast.Constant):
                    out.append((f, n, [n.args[0]], norm(n)))
    return out


def r2_cache_keys(ctx, rid):
    md = model(ctx)
    # ---- (a) keyed caches among the global containers
    for key in sorted(md.containers):
        c = md.containers[key]
        fx = facts_of(ctx, c)
        if fx.klass != "cache":
            continue
        for g in fx.cache_funcs:
            sl = Slicer(ctx, g, ignore_global=c.key)
            stores = [e for e in fx.muts if e.kind == "store" and e.f is g]
            reads = [e for e in fx.runtime if e.kind == "keyread" and e.f is g]
            read_roots = set()
            for r in reads:
                read_roots |= sl.roots(r.key)
            for st in stores:
                if st.key is None or st.value is None:
                    raise AnalysisError(f"{rid}: store into cache {c.key} at {st.where} has an unrecognised form")
                kroots = sl.roots(st.key)
                vroots = sl.roots(st.value)
                missing = sorted(p for p in vroots if not _covered(p, kroots))
                facts = {"cache": c.key, "key": norm(st.key), "key_roots": sorted(kroots), "value": norm(st.value),
                         "value_roots": _minimal(vroots), "not_determined_by_key": missing,
                         "read_keys": sorted({norm(r.key) for r in reads if r.key is not None})}
                label = f"{c.key} [{norm(st.node)}]"
                read_keys = {norm(r.key) for r in reads if r.key is not None}
                views = [(g, kroots, vroots, read_roots, read_keys)]
                base_bad = bool(missing) or (read_keys != {norm(st.key)} and read_roots != kroots)
                if base_bad or not reads:
                    # one half of the cache (or the whole of it) lives in a private helper: its parameters are just names for what the
                    # callers hand in, so the question is asked in the callers' terms - the same terms the un-extracted code is judged in
                    lifted = _lifted_verdicts(ctx, md, rid, c, g, kroots, vroots, read_roots, 3)
                    if lifted:
                        views = [(h, k2, v2, r2, None) for h, k2, v2, r2 in lifted]
                for h, k2, v2, r2, rk in views:
                    miss = sorted(p for p in v2 if not _covered(p, k2))
                    fc = dict(facts)
                    if h is not g:
                        fc.update({"cache_statement_in": g.qualname, "key_roots": sorted(k2), "value_roots": _minimal(v2), "not_determined_by_key": miss})
                    key_mismatch = r2 != k2 and (rk is None or rk != {norm(st.key)})
                    if key_mismatch:
                        ctx.violation(rid, h, st.node, f"cache `{c.key}` is read under a key built from {sorted(r2)} but written under "
                                      f"a key built from {sorted(k2)}: a hit returns a value stored for something else", fc, label=label)
                    elif miss:
                        ctx.violation(rid, h, st.node, f"the key of cache `{c.key}` does not determine the cached value: the value stored by "
                                      f"`{norm(st.node)}` is built from {miss}, which the key `{norm(st.key)}` (built from {sorted(k2)}) "
                                      f"does not cover; a later caller that agrees only on the key silently receives the value computed for "
                                      f"the earlier one", fc, label=label)
                    else:
                        ctx.ok(rid, h, st.node, f"every input of the cached value ({_minimal(v2)}) is covered by the key "
                               f"`{norm(st.key)}` ({sorted(k2)})", fc, label=label)
    # ---- (b) import of a generated module by a computed name == cache lookup in sys.modules keyed by that name
    # The "compilation unit" is found by role, not by where the statements happen to live: the function that writes the generated
    # source (directly or inside private helpers, which are spliced in: engine.inline) and reaches the import - directly, or by
    # calling the private helper(s) that perform it; the module-name roots are then translated through the call's arguments.
    for f, call, name_exprs, shown in _import_by_name_sites(ctx, md):
        label = f"import-by-name {shown}"
        sl0 = Slicer(ctx, f)
        k0 = set()
        for x in name_exprs:
            k0 |= sl0.roots(x)
        hosts = _import_hosts(ctx, md, rid, f, call, k0, 3)
        if not hosts:
            ctx.info(rid, f, call, f"dynamic import `{shown}` of a module this function did not generate (user package lookup); not a "
                     f"cache of generated code", label=label)
            continue
        # an unconditional removal of the same sys.modules entry before the import makes the lookup miss every time
        # ... and so does an unconditional store of a module this function just built under that name
        dropped0 = _entry_refreshed(ctx, md, f, call, k0)
        for g, anchor, kroots, view, writes in hosts:
            sl = Slicer(ctx, view)
            vroots = set()
            for w in writes:
                vroots |= sl.roots(w.args[0])
            missing = _minimal({p for p in vroots if not _covered(p, kroots)})
            dropped = dropped0 or (g is not f and _entry_refreshed(ctx, md, g, anchor, kroots))
            facts = {"import": shown, "module_name_roots": sorted(kroots), "written_source_roots": _minimal(vroots),
                     "not_determined_by_name": missing, "entry_refreshed_before_import": dropped}
            if g is not f:
                facts["import_performed_in"] = f.qualname
            if missing and not dropped:
                ctx.violation(rid, g, anchor, f"`{shown}` looks the generated module up in sys.modules under a name built from {sorted(kroots)}, "
                              f"while the module's source written by this function is built from {missing}: a second model generated under "
                              f"the same file name in one process gets the module (and vector field) compiled for the first", facts, label=label)
            else:
                ctx.ok(rid, g, anchor, "the module name covers every input of the generated source" if not missing else
                       "the sys.modules entry of that name is removed or replaced on every path before the import", facts, label=label)


def _source_writes(view: FunctionInfo) -> List[ast.Call]:
    return [n for n in walk_shallow(view.node) if isinstance(n, ast.Call) and isinstance(n.func, ast.Attribute)
            and n.func.attr in ("write", "writelines") and n.args]


def _entry_refreshed(ctx, md, f, anchor, kroots) -> bool:
    cfg = ctx.cfg(f)
    st_imp = stmt_of(cfg, anchor)
    sl = Slicer(ctx, f)
    for e in md.sys_modules.events:
        if e.f is f and e.kind in ("del", "mutcall", "store") and e.key is not None and sl.roots(e.key) == kroots:
            st_del = stmt_of(cfg, e.node)
            if st_del is not None and st_imp is not None and st_del is not st_imp and cfg.dominates(st_del, st_imp):
                return True
    return False


def _import_hosts(ctx, md, rid, f, anchor, kroots, depth):
    """[(function g, node in g that stands for the import, module-name roots in g's terms, view of g with its private helpers
    spliced in, source writes in that view)] - g is f itself when f writes the source, else the callers of the private helper f."""
    from engine.inline import inlined
    view = inlined(ctx, f)
    writes = _source_writes(view)
    if writes:
        return [(f, anchor, kroots, view, writes)]
    if depth <= 0 or not f.name.startswith("_") or f.name.startswith("__"):
        return []
    out = []
    for g, cs in ctx.cg.call_sites_of(f):
        if g is f or g == f:
            continue
        k2 = _roots_in_caller(ctx, md, rid, f, g, cs, kroots)
        out += _import_hosts(ctx, md, rid, g, cs, k2, depth - 1)
    return out


def _roots_in_caller(ctx, md, rid, f: FunctionInfo, g: FunctionInfo, cs: ast.Call, roots: Set[str]) -> Set[str]:
    """Access-path roots of f (paths on f's parameters) expressed in terms of its caller g at the call site cs."""
    bound = {}
    for i, a in enumerate(cs.args):
        pn = md._param_for(f, cs, None, i)
        if pn is not None and not isinstance(a, ast.Starred):
            bound[pn] = a
    for k in cs.keywords:
        pn = md._param_for(f, cs, k.arg, None) if k.arg is not None else None
        if pn is not None:
            bound[pn] = k.value
    a = f.node.args
    pos = [x.arg for x in a.posonlyargs + a.args]
    for i, dflt in enumerate(a.defaults):
        bound.setdefault(pos[len(pos) - len(a.defaults) + i], dflt)
    for x, dflt in zip(a.kwonlyargs, a.kw_defaults):
        if dflt is not None:
            bound.setdefault(x.arg, dflt)
    slg = Slicer(ctx, g)
    out = set()
    for r in roots:
        if r.startswith("global:"):
            out.add(r)
            continue
        head, _, rest = r.partition(".")
        if f.self_name is not None and head == f.self_name:
            recv = cs.func.value if isinstance(cs.func, ast.Attribute) else None
            base = slg.roots(recv) if recv is not None else None
        elif head in bound:
            base = slg.roots(bound[head]) if not isinstance(bound[head], ast.Constant) else set()
        else:
            base = None
        if base is None:
            raise AnalysisError(f"{rid}: cannot express the root `{r}` of {f.qual} in terms of its caller {g.qual} (`{norm(cs)}`)")
        for b in base:
            out.add(b if b.startswith("global:") or not rest else f"{b}.{rest}")
    return out


def _lifted_verdicts(ctx, md, rid, c, f: FunctionInfo, kroots, vroots, read_roots, depth):
    """A keyed cache (container c) inside a private helper f: [(caller, key roots, value roots, read-key roots)] in the terms of
    the outermost callers (recursively while the caller is private too and does not complete the cache itself); the callers' own
    keyed reads of c are added to the read keys.  Empty when f is not private or has no resolvable call site."""
    if depth <= 0 or not f.name.startswith("_") or f.name.startswith("__"):
        return []
    out = []
    for g, cs in ctx.cg.call_sites_of(f):
        if g == f:
            continue
        k2, v2, r2 = (_roots_in_caller(ctx, md, rid, f, g, cs, x) for x in (kroots, vroots, read_roots))
        slg = Slicer(ctx, g, ignore_global=c.key)
        own = [e for e in c.events if e.f is g and e.kind == "keyread" and e.key is not None]
        for e in own:
            r2 = r2 | slg.roots(e.key)
        sub = [] if own else _lifted_verdicts(ctx, md, rid, c, g, k2, v2, r2, depth - 1)
        out += sub if sub else [(g, k2, v2, r2)]
    return out


# =====================================================================================================================
# R3  per-compilation state is reset before its first use in a compilation
# =====================================================================================================================

class ResetBeforeUse:
    def __init__(self, ctx, c: Container):
        self.ctx, self.c, self.md = ctx, c, model(ctx)
        fx = facts_of(ctx, c)
        self.use_nodes: Dict[FunctionInfo, List[Event]] = {}
        for e in fx.runtime:
            if e.kind in OBSERVING:
                self.use_nodes.setdefault(e.f, []).append(e)
        self.reset_nodes: Dict[FunctionInfo, List[Event]] = {}
        for e in fx.resets:
            self.reset_nodes.setdefault(e.f, []).append(e)
        self.reach_use = self.md.reaching_to(set(self.use_nodes))
        self._must: Dict[FunctionInfo, Optional[bool]] = {}
        self._safe: Dict[FunctionInfo, Optional[list]] = {}

    def _stmt_has(self, cfg, st, events) -> Optional[Event]:
        for e in events:
            if stmt_of(cfg, e.node) is st:
                return e
        return None

    def must_reset_stmt(self, f, cfg, st) -> bool:
        if not isinstance(st, ast.stmt):
            return False
        if self._stmt_has(cfg, st, self.reset_nodes.get(f, ())) is not None and not isinstance(st, (ast.If, ast.While, ast.For)):
            return True
        if isinstance(st, (ast.FunctionDef, ast.AsyncFunctionDef, ast.ClassDef)):
            return False
        for call in stmt_calls(st):
            ts = self.md.ext_resolve(f, call)[0]
            if ts and all(self.must_reset_fn(t) for t in ts):
                return True
        return False

    def must_reset_fn(self, t: FunctionInfo) -> bool:
        if t in self._must:
            return bool(self._must[t])
        self._must[t] = None
        cfg = self.ctx.cfg(t)
        res = cfg.must_pass(cfg.ENTRY, lambda n: self.must_reset_stmt(t, cfg, n)) is None
        self._must[t] = res
        return res

    def unsafe(self, f: FunctionInfo, stack=()) -> Optional[list]:
        """None if on every path through f the container is reset before it is first observed; else a witness chain
        [(function, statement, what)], outermost first."""
        if f in stack:
            return None
        if f in self._safe:
            return self._safe[f]
        cfg = self.ctx.cfg(f)
        is_reset = lambda n: self.must_reset_stmt(f, cfg, n)
        result = None
        stmts = sorted(cfg.stmts(), key=lambda s: (s.lineno, s.col_offset))
        for st in stmts:
            if isinstance(st, (ast.FunctionDef, ast.AsyncFunctionDef, ast.ClassDef)):
                continue
            direct = None
            for e in self.use_nodes.get(f, ()):
                if stmt_of(cfg, e.node) is st and any(e.node is n or contains(n, e.node) or contains(e.node, n) for n in header_nodes(st)):
                    direct = e
                    break
            callees = []
            for call in stmt_calls(st):
                for t in self.md.ext_resolve(f, call)[0]:
                    if t in self.reach_use and t not in callees:
                        callees.append(t)
            if direct is None and not callees:
                continue
            if cfg.reachable_avoiding(cfg.ENTRY, st, is_reset) is None:
                continue            # every path to st passes a statement that resets the container
            if direct is not None:
                result = [(f, st, f"{direct.kind}: {direct.detail}")]
                break
            for t in callees:
                sub = self.unsafe(t, stack + (f,))
                if sub is not None:
                    result = [(f, st, f"calls {t.qualname}")] + sub
                    break
            if result is not None:
                break
        self._safe[f] = result
        return result


def r3_reset_before_use(ctx, rid):
    md = model(ctx)
    entries = [ctx.repo.get_func(*e) for e in R3_ENTRIES]
    n = 0
    for key in sorted(md.containers):
        c = md.containers[key]
        if c.kind in ("sys", "namespace"):
            continue
        fx = facts_of(ctx, c)
        if fx.klass != "state":
            continue
        n += 1
        an = ResetBeforeUse(ctx, c)
        reaching = [e for e in entries if e in an.reach_use]
        users = sorted({g.qualname for g in an.use_nodes})
        if not reaching:
            ctx.info(rid, None, None, f"{key}: no compile entry reaches a state-observing use (users: {users})",
                     construct=f"{key}::reset before first use", loc=c.loc)
            continue
        failing = None
        for e in reaching:
            w = an.unsafe(e)
            if w is not None:
                failing = (e, w)
                break
        label = f"per-compilation state {key} is not reset before its first use"
        facts = {"container": key, "entries_reaching_a_use": [e.qualname for e in reaching], "observing_users": users,
                 "resets": _sites(fx.resets)}
        if failing is None:
            ctx.ok(rid, reaching[0], reaching[0].node, f"on every path from {', '.join(e.qualname for e in reaching)} a reset of `{key}` "
                   f"precedes its first state-observing use", facts, label=f"per-compilation state {key} is reset before its first use")
        else:
            e, w = failing
            chain = " -> ".join(f"{g.qualname}:{getattr(st, 'lineno', '?')} `{norm(st, 70)}`" for g, st, what in w)
            facts["witness"] = [f"{g.qual}:{getattr(st, 'lineno', '?')} {norm(st, 100)} [{what}]" for g, st, what in w]
            last = w[-1]
            # one finding per container, keyed by the first compile entry that reaches a use of it (not by whichever entry happens to be
            # the first unsafe one: repairing one entry must not turn the same defect into a "new" finding at the next entry)
            facts["unsafe_entry"] = e.qualname
            ctx.violation(rid, reaching[0], reaching[0].node, f"`{key}` ({TABLE.get(key, ('per-compilation state', ''))[1] or 'per-compilation state'}) is "
                          f"observed by {last[0].qualname} ({last[2]}) during {e.qualname} on a path that passes no reset of it "
                          f"({chain}); it is emptied only if the previous user called clear(), so a compilation that follows one with "
                          f"clear=False starts from the previous model's entries", facts, label=label)
    ctx.require(n >= 1, f"{rid}: no per-compilation container found")


# =====================================================================================================================
# R4  registries are not mutated through shallow copies
# =====================================================================================================================

def _is_dict_of_dicts(c: Container) -> bool:
    v = c.value
    if not isinstance(v, ast.Dict) or not v.values:
        return False
    return any(isinstance(x, ast.Dict) or (isinstance(x, ast.Call) and call_name(x) == "dict") for x in v.values)


class ShallowFlow:
    """Follows (1) containers whose *values* are entries of a module-level dict-of-dicts registry ('shallow') and
    (2) such entries themselves ('entry') through locals, parameters, `self.<attr>` and return values."""

    def __init__(self, ctx, rid):
        self.ctx, self.rid, self.md = ctx, rid, model(ctx)
        self.repo = ctx.repo
        self.work: List[Tuple[str, FunctionInfo, ast.AST, str]] = []     # (kind, function, expression node, origin)
        self.done: Set[Tuple[str, int]] = set()
        self.attr_taint: Dict[Tuple[ClassInfo, str], str] = {}          # (class, attr) -> origin
        self.entry_funcs: Dict[FunctionInfo, dict] = {}                  # per function summary
        self.violations: List[Tuple[FunctionInfo, ast.AST, str, str]] = []
        self.copies: List[Tuple[FunctionInfo, ast.AST, str]] = []

    def push(self, kind, f, node, origin):
        k = (kind, id(node))
        if k not in self.done:
            self.done.add(k)
            self.work.append((kind, f, node, origin))

    def summary(self, f):
        return self.entry_funcs.setdefault(f, {"reads": 0, "copies": 0, "returns": 0, "passes": 0, "origin": set()})

    def run(self):
        while self.work:
            kind, f, node, origin = self.work.pop()
            if kind == "shallow":
                self.shallow(f, node, origin)
            else:
                self.entry(f, node, origin)

    # -- a container whose values are registry entries
    def shallow(self, f, e, origin):
        p = parent(e)
        md = self.md
        if isinstance(p, (ast.Assign, ast.AnnAssign)) and p.value is e:
            tg = p.targets if isinstance(p, ast.Assign) else [p.target]
            for t in tg:
                if isinstance(t, ast.Name):
                    for use in md._loads_reached(f, p, t.id):
                        self.push("shallow", f, use, origin)
                elif isinstance(t, ast.Attribute) and md._is_self(f, t.value):
                    self.taint_attr(f.cls, t.attr, origin)
                else:
                    raise AnalysisError(f"{self.rid}: shallow copy of {origin} stored into `{norm(t)}` in {f.qual}: form not recognised")
            return
        if isinstance(p, ast.Subscript) and p.value is e:
            if isinstance(p.ctx, ast.Load):
                self.push("entry", f, p, origin)
            return                                   # replacing an item of the copy does not touch the registry
        if isinstance(p, ast.Attribute) and p.value is e:
            gp = parent(p)
            if isinstance(gp, ast.Call) and gp.func is p:
                if p.attr in ("get", "pop", "setdefault", "popitem"):
                    self.push("entry", f, gp, origin)
                elif p.attr in ("values", "items"):
                    pp = parent(gp)
                    if isinstance(pp, (ast.For, ast.AsyncFor)) and pp.iter is gp:
                        tgt = pp.target
                        vt = tgt.elts[1] if p.attr == "items" and isinstance(tgt, ast.Tuple) and len(tgt.elts) == 2 else (tgt if p.attr == "values" else None)
                        if isinstance(vt, ast.Name):
                            for use in md._loads_reached(f, pp, vt.id):
                                self.push("entry", f, use, origin)
                        elif vt is not None:
                            raise AnalysisError(f"{self.rid}: iteration over registry entries with target `{norm(tgt)}` in {f.qual}: form not recognised")
                elif p.attr == "copy":
                    self.push("shallow", f, gp, origin)
            return
        if isinstance(p, ast.Call) and e in p.args or isinstance(p, ast.keyword):
            call = p if isinstance(p, ast.Call) else parent(p)
            cn = call_name(call)
            if isinstance(call.func, ast.Name) and cn == "dict":
                self.push("shallow", f, call, origin)
                return
            if isinstance(call.func, ast.Name) and cn in ("deepcopy",):
                return
            if isinstance(call.func, ast.Attribute) and cn == "update" and not md.ext_resolve(f, call)[0]:
                # receiver.update(shallow): the receiver now holds registry entries as well
                recv = call.func.value
                if isinstance(recv, ast.Name):
                    for d in self.ctx.rd(f).defs_reaching(recv):
                        if isinstance(d, (ast.Assign, ast.AnnAssign)):
                            for use in md._loads_reached(f, d, recv.id):
                                self.push("shallow", f, use, origin)
                elif isinstance(recv, ast.Attribute) and md._is_self(f, recv.value):
                    self.taint_attr(f.cls, recv.attr, origin)
                else:
                    raise AnalysisError(f"{self.rid}: registry entries of {origin} copied into `{norm(recv)}` in {f.qual}: form not recognised")
                return
            if isinstance(call.func, ast.Name) and cn in PURE_BUILTINS:
                return
            ts = md.ext_resolve(f, call)[0]
            if not ts:
                raise AnalysisError(f"{self.rid}: shallow copy of {origin} passed to unresolved call `{norm(call.func)}` in {f.qual}")
            for t in ts:
                pname = md._param_for(t, call, p.arg if isinstance(p, ast.keyword) else None,
                                      call.args.index(e) if isinstance(p, ast.Call) else None)
                if pname is None or pname not in t.params:
                    continue
                for use in md._loads_reached(t, t.node.args, pname):
                    self.push("shallow", t, use, origin)
            return
        if isinstance(p, ast.Return):
            for g, call in self.ctx.cg.call_sites_of(f):
                self.push("shallow", g, call, origin)
            return
        if isinstance(p, ast.Dict) and any(v is e and k is None for k, v in zip(p.keys, p.values)):
            self.push("shallow", f, p, origin)         # {**shallow, ...}: the new dict shares the entries as well
            return
        # reads: iteration over keys, membership, len(), truth value ...
        return

    def taint_attr(self, k: ClassInfo, attr: str, origin: str):
        if k is None:
            return
        fam = set(k.mro) | set(self.repo.subclasses(k))
        for c in fam:
            if (c, attr) in self.attr_taint:
                continue
            self.attr_taint[(c, attr)] = origin
            for g in c.methods.values():
                if g.self_name is None:
                    continue
                for n in walk_shallow(g.node):
                    if isinstance(n, ast.Attribute) and n.attr == attr and isinstance(n.ctx, ast.Load) and self.md._is_self(g, n.value):
                        self.push("shallow", g, n, origin)

    # -- a registry entry (inner dict shared with the module-level registry)
    def entry(self, f, e, origin):
        p = parent(e)
        md = self.md
        sm = self.summary(f)
        sm["origin"].add(origin)
        if isinstance(p, ast.Subscript) and p.value is e:
            if isinstance(p.ctx, (ast.Store, ast.Del)):
                st = p
                while not isinstance(st, ast.stmt):
                    st = parent(st)
                self.violations.append((f, st, "item store / delete", origin))
            else:
                sm["reads"] += 1
            return
        if isinstance(p, ast.Attribute) and p.value is e:
            gp = parent(p)
            if isinstance(gp, ast.Call) and gp.func is p:
                if p.attr in MUTATORS:
                    st = gp
                    while not isinstance(st, ast.stmt):
                        st = parent(st)
                    self.violations.append((f, st, f".{p.attr}()", origin))
                elif p.attr == "copy":
                    sm["copies"] += 1
                    self.copies.append((f, gp, origin))
                else:
                    sm["reads"] += 1
            return
        if isinstance(p, (ast.Assign, ast.AnnAssign)) and p.value is e:
            tg = p.targets if isinstance(p, ast.Assign) else [p.target]
            for t in tg:
                if isinstance(t, ast.Name):
                    for use in md._loads_reached(f, p, t.id):
                        self.push("entry", f, use, origin)
                else:
                    raise AnalysisError(f"{self.rid}: registry entry of {origin} stored into `{norm(t)}` in {f.qual}: form not recognised")
            return
        if isinstance(p, ast.Dict) and e in p.values and None in [k for k in p.keys] and p.keys[p.values.index(e)] is None:
            sm["copies"] += 1                      # {**entry}
            self.copies.append((f, p, origin))
            return
        if (isinstance(p, ast.Call) and e in p.args) or isinstance(p, ast.keyword):
            call = p if isinstance(p, ast.Call) else parent(p)
            cn = call_name(call)
            if (isinstance(call.func, ast.Name) and cn in ("dict", "deepcopy", "copy", "OrderedDict")) or \
                    dotted(call.func) in ("copy.deepcopy", "copy.copy"):
                sm["copies"] += 1
                self.copies.append((f, call, origin))
                return
            if isinstance(call.func, ast.Name) and cn in PURE_BUILTINS:
                sm["reads"] += 1
                return
            if isinstance(call.func, ast.Attribute) and cn in SHALLOW_READERS and not md.ext_resolve(f, call)[0]:
                sm["reads"] += 1
                return
            ts = md.ext_resolve(f, call)[0]
            if not ts:
                raise AnalysisError(f"{self.rid}: registry entry of {origin} passed to unresolved call `{norm(call.func)}` in {f.qual}")
            sm["passes"] += 1
            for t in ts:
                pname = md._param_for(t, call, p.arg if isinstance(p, ast.keyword) else None,
                                      call.args.index(e) if isinstance(p, ast.Call) else None)
                if pname is None or pname not in t.params:
                    continue
                for use in md._loads_reached(t, t.node.args, pname):
                    self.push("entry", t, use, origin)
            return
        if isinstance(p, ast.Return):
            sm["returns"] += 1
            for g, call in self.ctx.cg.call_sites_of(f):
                self.push("entry", g, call, origin)
            return
        if isinstance(p, ast.AugAssign) and p.target is e:
            self.violations.append((f, p, "augmented assignment", origin))
            return
        if isinstance(p, ast.Starred) or (isinstance(p, ast.keyword) and p.arg is None):
            sm["reads"] += 1
            return
        sm["reads"] += 1


def r4_registry_copies(ctx, rid):
    md = model(ctx)
    regs = [c for c in md.containers.values() if c.kind == "module" and _is_dict_of_dicts(c)]
    ctx.require(len(regs) >= 4, f"{rid}: expected the *_funcs registries (dict of dicts), found {[c.key for c in regs]}")
    fl = ShallowFlow(ctx, rid)
    n_src = 0
    for c in sorted(regs, key=lambda c: c.key):
        for e in c.events:
            if e.f is None:
                continue
            if e.kind == "copy":
                # `.copy()` / dict(c): e.node is the call producing the copy; `x.update(c)`: the receiver becomes shallow
                n_src += 1
                call = e.node
                if isinstance(call, ast.Dict):
                    fl.push("shallow", e.f, call, c.key)           # {**registry, ...}
                elif isinstance(call.func, ast.Attribute) and call.func.attr in SHALLOW_READERS:
                    # find the registry reference among the arguments and treat it as a shallow container flowing into the receiver
                    for a in call.args:
                        if md.container_of_expr(e.f, e.module, a) is c:
                            fl.push("shallow", e.f, a, c.key)
                else:
                    fl.push("shallow", e.f, call, c.key)
                ctx.info(rid, e.f, call, f"shallow copy of registry {c.key}: the entries stay shared with the registry")
            elif e.kind == "keyread" and e.detail in ("c[k]", ".get(key)"):
                fl.push("entry", e.f, e.node, c.key)
    ctx.require(n_src >= 4, f"{rid}: expected shallow copies of the function registries in the backend constructors, found {n_src}")
    fl.run()
    bad_funcs = set()
    for f, st, how, origin in fl.violations:
        bad_funcs.add(f)
        ctx.violation(rid, f, st, f"`{norm(st)}` writes ({how}) into an entry of a module-level function registry that {f.qualname} "
                      f"received through a shallow copy (`<registry>.copy()` copies the outer dict only; the inner dict is the registry's "
                      f"own object): the change persists for every backend created later in the process",
                      {"registries_shallow_copied": sorted(c.key for c in regs), "how": how,
                       "attributes_holding_shallow_copies": sorted({f"{k.name}.{a}" for (k, a) in fl.attr_taint})})
    for f, sm in sorted(fl.entry_funcs.items(), key=lambda kv: kv[0].qual):
        if f in bad_funcs:
            continue
        what = []
        if sm["copies"]:
            what.append("copied before use")
        if sm["returns"]:
            what.append("returned to callers (followed)")
        if sm["passes"]:
            what.append("passed on (followed)")
        if sm["reads"] or not what:
            what.append("only read")
        ctx.ok(rid, f, f.node, f"entries of the function registries reach {f.qualname} through a shallow copy and are " + ", ".join(what),
               {"reads": sm["reads"], "copies": sm["copies"], "returns": sm["returns"], "passes": sm["passes"],
                "registries": sorted(c.key for c in regs)}, label="registry entries reached through a shallow copy")
    ctx.notes.append(f"{rid}: attributes holding shallow registry copies: "
                     f"{sorted({f'{k.name}.{a}' for (k, a) in fl.attr_taint})}")



def r5_template_compile_state_rebound(ctx, rid):
    """Per-compilation *instance* state of a template (the relabelling maps _vectorization_labels / _vectorization_indices that
    apply() fills) must be re-bound to freshly built containers by every compilation before anything reads or extends it:
    CircuitTemplate.clear() does not touch these maps, so a compilation that merely merges into them inherits the node
    grouping of the previous compilation of the same template object (edges and outputs re-wired to the earlier grouping)."""
    import ast as _ast
    from engine.effects import analyse as _analyse
    from engine.util import call_name as _cn
    from engine.cfg import stmt_of as _stmt_of
    f_apply = ctx.repo.get_func(CIRCUIT_T, "CircuitTemplate.apply")
    cls = f_apply.cls
    init = cls.methods.get("__init__")
    if init is None:
        raise AnalysisError(f"{rid}: CircuitTemplate.__init__ vanished")
    # candidate attributes: initialised to an empty container in __init__, mutated somewhere under apply, not reset by clear()
    eff = ctx.effects
    inits = {}
    for st in walk_shallow(init.node):
        if isinstance(st, _ast.Assign) and len(st.targets) == 1 and isinstance(st.targets[0], _ast.Attribute) \
                and isinstance(st.targets[0].value, _ast.Name) and st.targets[0].value.id == init.self_name \
                and isinstance(st.value, (_ast.Dict, _ast.List)) and not getattr(st.value, "keys", getattr(st.value, "elts", [])):
            inits[st.targets[0].attr] = st
    mutated = {path[0][1:] for (p, path) in eff.mutates(f_apply, None) if p == f_apply.self_name and path}
    clear = cls.methods.get("clear")
    cleared = {path[0][1:] for (p, path) in eff.mutates(clear, None) if p == clear.self_name and path} if clear else set()
    state = sorted(a for a in inits if a in mutated and a not in cleared and a.startswith("_vectorization"))
    if len(state) < 2:
        raise AnalysisError(f"{rid}: expected the relabelling maps _vectorization_labels/_vectorization_indices as per-compilation "
                            f"instance state of CircuitTemplate, found {state}")
    cfg = ctx.cfg(f_apply)
    for attr in state:
        # the first statement of apply (in dominance order) whose effects touch self.<attr>
        touching = []
        for e in eff.events_of(f_apply, None):
            o = e.origin
            if o[0] == "P" and o[1] == f_apply.self_name and o[2] and o[2][0] == "." + attr:
                if e.stmt not in touching:
                    touching.append(e.stmt)
        readers = [st for st in cfg.stmts() if any(isinstance(n, _ast.Attribute) and n.attr == attr for n in _ast.walk(st))
                   and not isinstance(st, (_ast.If, _ast.For, _ast.While, _ast.Try, _ast.With))]
        cand = [st for st in touching + readers if st in cfg.g]
        first = [st for st in cand if all(cfg.dominates(st, o) or st is o for o in cand)]
        if not first:
            raise AnalysisError(f"{rid}: no single first use of self.{attr} in apply (dominance order)")
        st0 = first[0]
        # that statement must call a method in which self.<attr> is re-bound, on every path, to a container built locally,
        # and which does not otherwise mutate self.<attr>
        callee = None
        for c in _ast.walk(st0):
            if isinstance(c, _ast.Call):
                ts, how = ctx.cg.resolve_call(f_apply, c)
                for t in ts:
                    if t.cls is not None and any(isinstance(x, _ast.Assign) and any(isinstance(tt, _ast.Attribute) and tt.attr == attr for tt in x.targets)
                                                 for x in walk_shallow(t.node)):
                        callee = t
        facts = {"attribute": attr, "first_use_in_apply": norm(st0)}
        if callee is None:
            direct = isinstance(st0, _ast.Assign) and any(isinstance(tt, _ast.Attribute) and tt.attr == attr for tt in st0.targets)
            if direct:
                ctx.ok(rid, f_apply, st0, f"self.{attr} is re-bound at the start of every compilation", facts, label=f"self.{attr} is re-bound per compilation")
            else:
                ctx.violation(rid, f_apply, st0, f"the first use of self.{attr} in a compilation (`{norm(st0)}`) neither re-binds it nor calls a "
                                                 f"method that does: the map still holds the node grouping of the previous compilation of this template object",
                              facts, label=f"self.{attr} is re-bound per compilation")
            continue
        ccfg = ctx.cfg(callee)
        an = _analyse(eff, callee, None)
        rebinds = [x for x in ccfg.stmts() if isinstance(x, _ast.Assign) and any(isinstance(tt, _ast.Attribute) and tt.attr == attr
                                                                                   and isinstance(tt.value, _ast.Name) and tt.value.id == callee.self_name
                                                                                   for tt in x.targets)]
        fresh = [x for x in rebinds if all(o[0] in ("F", "L") for o in an.origins(x.value)) and an.origins(x.value)]
        on_all_paths = bool(fresh) and ccfg.must_pass(ccfg.ENTRY, lambda n: any(n is x for x in fresh)) is None
        merges = [e for e in eff.events_of(callee, None) if e.origin[0] == "P" and e.origin[1] == callee.self_name
                  and e.origin[2] and e.origin[2][0] == "." + attr and not isinstance(e.stmt, _ast.Assign)]
        merges += [e for e in eff.events_of(callee, None) if e.origin[0] == "P" and e.origin[1] == callee.self_name
                   and e.origin[2] and e.origin[2][0] == "." + attr and isinstance(e.stmt, _ast.Assign)
                   and not any(isinstance(tt, _ast.Attribute) and tt.attr == attr for tt in e.stmt.targets)]
        facts.update({"callee": callee.qualname, "rebinds": [norm(x) for x in rebinds], "merging_writes": [norm(e.stmt) for e in merges]})
        if on_all_paths and not merges:
            ctx.ok(rid, callee, fresh[0], f"every compilation re-binds self.{attr} to a container built in {callee.qualname}", facts,
                   label=f"self.{attr} is re-bound per compilation")
        else:
            node = merges[0].stmt if merges else (rebinds[0] if rebinds else callee.node)
            ctx.violation(rid, callee, node, f"{callee.qualname} (first user of self.{attr} in a compilation) does not replace it by a freshly built "
                                             f"map on every path ({'merges into it: ' + norm(merges[0].stmt) if merges else 're-binding missing or not fresh'}): "
                                             f"clear() does not reset this map, so entries of an earlier compilation with another node grouping survive "
                                             f"and re-wire edges/outputs", facts, label=f"self.{attr} is re-bound per compilation")



def r6_stale_layout_dropped_before_use(ctx, rid):
    """The state-vector layout that get_run_func/get_jacobian_func leave on a template is history: run() must drop it on the
    object it actually simulates before it computes output positions (same rule as C06-R4)."""
    from .c06 import r4_positions_inside_backend_variable
    r4_positions_inside_backend_variable(ctx, rid)



# =====================================================================================================================
# R7  a name generator is reset only together with the caches keyed by the names it generated
# =====================================================================================================================

class NameFlow:
    """Which global caches are keyed by values drawn from the mutation history of a global container G (a counter of labels: the
    value handed out depends on what was handed out before, so it is unique only as long as G remembers)?  The flow is followed
    from the function that draws the value (G passed to a callee that mutates it, or `G[k] op= v` in place) into cache keys of that
    function, and through call arguments -> parameters -> `self.<attr>` of the constructed class family -> cache keys in the
    methods of that family."""

    def __init__(self, ctx, rid):
        self.ctx, self.rid, self.md = ctx, rid, model(ctx)
        self.couplings: Dict[Tuple[str, str], List[str]] = {}       # (generator key, cache key) -> provenance chain
        self._slicers: Dict[FunctionInfo, Slicer] = {}
        self._seen: Set[tuple] = set()

    def sl(self, f) -> "Slicer":
        if f not in self._slicers:
            self._slicers[f] = Slicer(self.ctx, f)
        return self._slicers[f]

    def keyed_stores(self, f):
        """(container, event) for every keyed store into a global container in f"""
        out = []
        for c in self.md.containers.values():
            if c.kind not in ("module", "class"):
                continue
            for e in c.events:
                if e.f is f and e.kind == "store" and e.key is not None:
                    out.append((c, e))
        return out

    STRING_METHODS = {"format", "join", "strip", "lstrip", "rstrip", "lower", "upper", "replace", "removeprefix", "removesuffix", "title"}

    def name_taint(self, f, seeds, param=None, seed_pos=None):
        """Predicate: is this expression of f a generated name (or text built from one)?  Seeds are the expressions that draw the
        value (or the parameter that receives it).  Only values are followed - names, tuple unpacking, string building, conditional
        expressions - not objects that merely hold a name (those are followed as constructor arguments -> fields)."""
        rd = self.ctx.rd(f)
        seed_ids = {id(x) for x in seeds}
        seed_pos = seed_pos or {}               # id(seed call) -> positions of its tuple result that are names (None: all)
        memo: Dict[int, bool] = {}

        def T(x, depth=0):
            if x is None or depth > 12:
                return False
            if id(x) in seed_ids:
                return True
            if id(x) in memo:
                return memo[id(x)]
            memo[id(x)] = False
            r = False
            if isinstance(x, ast.Name):
                if self.md._shadowed(f, x.id):
                    for d in rd.defs_reaching(x):
                        if isinstance(d, ast.arguments):
                            r = r or (param is not None and x.id == param)
                        elif isinstance(d, (ast.Assign, ast.AnnAssign)) and d.value is not None:
                            for tg in (d.targets if isinstance(d, ast.Assign) else [d.target]):
                                if isinstance(tg, ast.Name) and tg.id == x.id:
                                    r = r or T(d.value, depth + 1)
                                elif isinstance(tg, (ast.Tuple, ast.List)) and any(isinstance(t, ast.Name) and t.id == x.id for t in tg.elts):
                                    if isinstance(d.value, (ast.Tuple, ast.List)) and len(d.value.elts) == len(tg.elts):
                                        i = [isinstance(t, ast.Name) and t.id == x.id for t in tg.elts].index(True)
                                        r = r or T(d.value.elts[i], depth + 1)
                                    elif id(d.value) in seed_pos and seed_pos[id(d.value)] is not None:
                                        i = [isinstance(t, ast.Name) and t.id == x.id for t in tg.elts].index(True)
                                        r = r or i in seed_pos[id(d.value)]
                                    else:
                                        r = r or T(d.value, depth + 1)
            elif isinstance(x, ast.JoinedStr):
                r = any(T(v.value, depth + 1) for v in x.values if isinstance(v, ast.FormattedValue))
            elif isinstance(x, ast.BinOp) and isinstance(x.op, (ast.Add, ast.Mod)):
                r = T(x.left, depth + 1) or T(x.right, depth + 1)
            elif isinstance(x, ast.IfExp):
                r = T(x.body, depth + 1) or T(x.orelse, depth + 1)
            elif isinstance(x, ast.Subscript):
                r = T(x.value, depth + 1)
            elif isinstance(x, ast.Tuple) and isinstance(parent(x), ast.BinOp):
                r = any(T(e, depth + 1) for e in x.elts)                     # "..." % (a, b)
            elif isinstance(x, ast.Call):
                if isinstance(x.func, ast.Name) and x.func.id in ("str", "repr", "format") and not self.md._shadowed(f, x.func.id):
                    r = any(T(a, depth + 1) for a in x.args)
                elif isinstance(x.func, ast.Attribute) and x.func.attr in self.STRING_METHODS:
                    r = T(x.func.value, depth + 1) or any(T(a, depth + 1) or (isinstance(a, (ast.Tuple, ast.List)) and any(T(e, depth + 1) for e in a.elts))
                                                          for a in x.args)
            memo[id(x)] = r
            return r
        return T

    def run(self, g: Container, sites: List[Event]):
        for f in sorted({e.f for e in sites}, key=lambda x: x.qual):
            seeds = [e.node for e in sites if e.f is f and e.kind == "argmut"]
            if any(e.f is f and e.kind == "aug" for e in sites):
                # the counter is advanced in place: what is read from it in this function is the drawn value
                seeds += [e.node for e in g.events if e.f is f and e.kind == "keyread"]
            self.scan(f, self.name_taint(f, seeds), g, [], None, 0)

    def scan(self, f, tainted, g, chain, cls, depth):
        """f holds generated names in the expressions that satisfy `tainted`; cls = the class under construction when f runs as
        (part of) a constructor"""
        for c, e in self.keyed_stores(f):
            if c is not g and tainted(e.key):
                self.couple(g, c, chain + [f"{f.qualname}: key `{norm(e.key)}` of `{norm(e.node)}`"])
        # a generated name that is returned: the call sites of f draw it
        rets = [n for n in walk_shallow(f.node) if isinstance(n, ast.Return) and n.value is not None]
        pos: Optional[Set[int]] = set()
        for r in rets:
            if isinstance(r.value, ast.Tuple):
                hit = {i for i, x in enumerate(r.value.elts) if tainted(x)}
                if pos is not None:
                    pos |= hit
            elif tainted(r.value):
                pos = None
        if (pos is None or pos) and depth < 4:
            for h, cs in self.ctx.cg.call_sites_of(f):
                k = (g.key, h.qual, "returned by " + f.qual, getattr(cs, "lineno", 0), getattr(cs, "col_offset", 0))
                if h == f or k in self._seen:
                    continue
                self._seen.add(k)
                self.scan(h, self.name_taint(h, [cs], seed_pos={id(cs): pos}), g,
                          chain + [f"{f.qualname} returns the name to {h.qualname} (`{norm(cs, 60)}`)"], None, depth + 1)
        for n in walk_shallow(f.node):
            if isinstance(n, (ast.Assign, ast.AnnAssign)) and n.value is not None and cls is not None and tainted(n.value):
                for tg in (n.targets if isinstance(n, ast.Assign) else [n.target]):
                    if isinstance(tg, ast.Attribute) and self.md._is_self(f, tg.value):
                        self.field(cls, tg.attr, g, chain + [f"{f.qualname}: `{norm(n)}`"])
            elif isinstance(n, ast.Call) and depth < 4:
                args = [(a, None, i) for i, a in enumerate(n.args) if not isinstance(a, ast.Starred)] + \
                       [(k.value, k.arg, None) for k in n.keywords if k.arg is not None]
                targs = [(a, kw, pos) for a, kw, pos in args if tainted(a)]
                if not targs:
                    continue
                is_super = isinstance(n.func, ast.Attribute) and isinstance(n.func.value, ast.Call) and call_name(n.func.value) == "super"
                k0 = self.ctx.repo.resolve_expr(f.module, n.func) if isinstance(n.func, (ast.Name, ast.Attribute)) else None
                ncls = cls if is_super else (k0 if isinstance(k0, ClassInfo) else None)
                for t in self.md.ext_resolve(f, n)[0]:
                    for a, kw, pos in targs:
                        pn = self.md._param_for(t, n, kw, pos)
                        if pn is None or pn not in t.params:
                            continue
                        k = (g.key, t.qual, pn, ncls.qual if ncls is not None else None)
                        if k in self._seen:
                            continue
                        self._seen.add(k)
                        self.scan(t, self.name_taint(t, [], param=pn), g,
                                  chain + [f"{f.qualname}: `{norm(n, 80)}` -> {t.qualname}({pn})"], ncls, depth + 1)

    def field(self, k: ClassInfo, attr: str, g, chain):
        fam = set(k.mro) | set(self.ctx.repo.subclasses(k))
        for kk in sorted(fam, key=lambda x: x.qual):
            for m in kk.methods.values():
                if m.self_name is None or m.is_classmethod:
                    continue
                acc = [(c, e) for c, e in self.keyed_stores(m) if c is not g]
                if not acc:
                    continue
                path = f"{m.self_name}.{attr}"
                sl = self.sl(m)
                for c, e in acc:
                    kr = sl.roots(e.key)
                    if path in kr or m.self_name in kr:
                        self.couple(g, c, chain + [f"{m.qualname}: key `{norm(e.key)}` of `{norm(e.node)}` is built from self.{attr}"])
                        continue
                    # the store sits in a private helper that receives the key as a parameter: ask its callers
                    for h, k2, _, _ in _lifted_verdicts(self.ctx, self.md, self.rid, c, m, kr, set(), set(), 3):
                        if h.self_name is not None and (f"{h.self_name}.{attr}" in k2 or h.self_name in k2):
                            self.couple(g, c, chain + [f"{h.qualname} -> {m.qualname}: key `{norm(e.key)}` of `{norm(e.node)}` is built from "
                                                       f"self.{attr}"])

    def couple(self, g, c, chain):
        self.couplings.setdefault((g.key, c.key), chain)


def r7_generator_reset_with_its_caches(ctx, rid):
    """A label counter G hands out names that are unique only relative to what it remembers.  Where such names become keys of a
    process-wide cache C, forgetting G (reset) while C keeps its entries makes a later model draw a name that still has an entry:
    it inherits the cached value of an earlier model.  So every reset of G must be accompanied - on every path through the
    resetting function - by a reset of every cache keyed by G's names."""
    md = model(ctx)
    nf = NameFlow(ctx, rid)
    gens = []
    for key in sorted(md.containers):
        g = md.containers[key]
        if g.kind not in ("module", "class"):
            continue
        fx = facts_of(ctx, g)
        sites = [e for e in fx.runtime if e.kind in ("argmut", "aug")]
        if sites:
            gens.append(g)
            nf.run(g, sites)
    ctx.require(gens, f"{rid}: no global container is used as a name generator (counter handed to a function that advances it)")
    ctx.require(nf.couplings, f"{rid}: no global cache keyed by generated names was found (anchor: the generated input operator's name is "
                              f"the key of OperatorTemplate.cache on the pinned tree)")
    for (gk, ck), chain in sorted(nf.couplings.items()):
        g, c = md.containers[gk], md.containers[ck]
        rb = ResetBeforeUse(ctx, c)
        resets = [e for e in facts_of(ctx, g).resets if e.f is not None]
        facts = {"generator": gk, "cache": ck, "flow": chain, "cache_resets": _sites(facts_of(ctx, c).resets)}
        if not resets:
            ctx.info(rid, None, None, f"{ck} is keyed by names generated from {gk}, which is never reset at run time: names only grow",
                     construct=f"{gk} -> {ck}::generator never reset", loc=g.loc)
            continue
        for e in sorted(resets, key=lambda e: (e.f.qual, getattr(e.node, "lineno", 0))):
            w = _uncoupled(ctx, rb, e.f, e.node, 2)
            label = f"reset of {gk} in {e.f.qualname} also resets {ck}"
            if w is None:
                ctx.ok(rid, e.f, e.node, f"whenever {e.f.qualname} forgets the generated names of `{gk}`, the cache `{ck}` keyed by them is "
                                         f"emptied as well", facts, label=label)
            else:
                h, node = w
                ctx.violation(rid, e.f, e.node, f"`{norm(e.node)}` in {e.f.qualname} restarts the name generator `{gk}` on a path "
                              f"{'through ' + h.qualname + ' ' if h is not e.f else ''}that does not empty `{ck}`, the cache keyed by the names it "
                              f"generates ({'; '.join(chain)}): the next model draws a name that still has an entry and silently receives the "
                              f"value cached for an earlier model", facts, label=label)


def _uncoupled(ctx, rb: "ResetBeforeUse", h: FunctionInfo, node, depth):
    """None when every execution of `node` in h is accompanied by a reset of rb's container (a resetting statement dominates it or
    lies on every path from it to the exit); for a private helper without such a statement every call site is asked instead.
    Else (function, node) of the uncovered site."""
    cfg = ctx.cfg(h)
    st = stmt_of(cfg, node)
    if st is None:
        raise AnalysisError(f"C13-R7: cannot locate `{norm(node)}` in the control flow of {h.qual}")
    if rb.must_reset_stmt(h, cfg, st) and not isinstance(st, (ast.If, ast.While, ast.For)):
        return None                                   # the same statement (e.g. one helper call) resets both
    is_reset = lambda n: n is not st and rb.must_reset_stmt(h, cfg, n)
    if any(is_reset(n) and cfg.dominates(n, st) for n in cfg.stmts()):
        return None
    if cfg.must_pass(st, is_reset) is None:
        return None
    if depth > 0 and h.name.startswith("_") and not h.name.startswith("__"):
        sites = [(g, cs) for g, cs in ctx.cg.call_sites_of(h) if g != h]
        if sites:
            for g, cs in sites:
                w = _uncoupled(ctx, rb, g, cs, depth - 1)
                if w is not None:
                    return w
            return None
    return (h, node)


def r8_process_global_precision_switch(ctx, rid):
    """A backend may only ever switch the process-wide 64-bit mode ON (constant True): a per-instance value makes the results of
    models compiled earlier depend on which backend was created last (same rule as C02-R8)."""
    from .c02 import r8_global_precision_switches
    r8_global_precision_switches(ctx, rid)



# =====================================================================================================================
# R9  on a cache hit an explicitly given value wins over the cached default - decided by presence, not by truthiness
# =====================================================================================================================

class CacheCompletion:
    """A cache entry may carry *defaults* with which the caller's own dict of explicit values is completed on a hit.  The entry was
    computed for an earlier node / model, so whatever the caller gave explicitly must survive the completion: the fill of a key is
    decided by the PRESENCE of the key in the caller's dict.  Sites = statements that put a value read from a global cache into a
    dict that is (an alias of) a parameter, in the function that reads the cache or in callees the cached value is handed to."""

    def __init__(self, ctx, rid):
        self.ctx, self.rid, self.md = ctx, rid, model(ctx)
        self.sites: List[tuple] = []          # (status, f, node, msg, label)
        self._seen: Set[tuple] = set()

    # -- value flow of what was read from the cache
    def taint(self, f, seeds, param=None):
        rd = self.ctx.rd(f)
        seed_ids = {id(x) for x in seeds}
        memo: Dict[int, bool] = {}

        def T(x, depth=0):
            if x is None or depth > 12:
                return False
            if id(x) in seed_ids:
                return True
            if id(x) in memo:
                return memo[id(x)]
            memo[id(x)] = False
            r = False
            if isinstance(x, ast.Name):
                if self.md._shadowed(f, x.id):
                    for d in rd.defs_reaching(x):
                        if isinstance(d, ast.arguments):
                            r = r or (param is not None and x.id == param)
                        elif isinstance(d, (ast.Assign, ast.AnnAssign)) and d.value is not None:
                            for tg in (d.targets if isinstance(d, ast.Assign) else [d.target]):
                                if any(isinstance(n, ast.Name) and n.id == x.id for n in ast.walk(tg)):
                                    if isinstance(tg, (ast.Tuple, ast.List)) and isinstance(d.value, (ast.Tuple, ast.List)) and len(tg.elts) == len(d.value.elts):
                                        for t, v in zip(tg.elts, d.value.elts):
                                            if any(isinstance(n, ast.Name) and n.id == x.id for n in ast.walk(t)):
                                                r = r or T(v, depth + 1)
                                    else:
                                        r = r or T(d.value, depth + 1)
                        elif isinstance(d, (ast.For, ast.AsyncFor)):
                            r = r or T(d.iter, depth + 1)
                        elif isinstance(d, (ast.With, ast.AsyncWith)):
                            pass
                else:
                    g = None
                    for a in ancestors(x):
                        if isinstance(a, (ast.ListComp, ast.SetComp, ast.DictComp, ast.GeneratorExp)):
                            for gen in a.generators:
                                if any(isinstance(n, ast.Name) and n.id == x.id for n in ast.walk(gen.target)):
                                    g = gen
                    if g is not None:
                        r = T(g.iter, depth + 1)
            elif isinstance(x, (ast.Subscript, ast.Attribute, ast.Starred)):
                r = T(x.value, depth + 1)
            elif isinstance(x, ast.Call):
                if isinstance(x.func, ast.Attribute) and x.func.attr in ("items", "values", "copy", "get", "pop", "keys"):
                    r = T(x.func.value, depth + 1) or (x.func.attr in ("get", "pop") and len(x.args) == 2 and T(x.args[1], depth + 1))
                elif isinstance(x.func, ast.Name) and x.func.id in ("dict", "list", "tuple", "deepcopy", "copy", "sorted", "iter", "next", "enumerate", "zip") \
                        and not self.md._shadowed(f, x.func.id):
                    r = any(T(a, depth + 1) for a in x.args)
            elif isinstance(x, ast.IfExp):
                r = T(x.body, depth + 1) or T(x.orelse, depth + 1)
            elif isinstance(x, ast.BoolOp):
                r = any(T(v, depth + 1) for v in x.values)
            memo[id(x)] = r
            return r
        return T

    def is_callers_dict(self, f, e) -> bool:
        """`e` is a name that may still be the dict the caller passed in (a parameter, possibly defaulted to an empty dict)"""
        if not isinstance(e, ast.Name) or e.id not in f.params or e.id == f.self_name:
            return False
        rd = self.ctx.rd(f)

        def may_be_param(x, depth=0):
            if depth > 4:
                return False
            if isinstance(x, ast.Name):
                if x.id != e.id:
                    return False
                for d in rd.defs_reaching(x):
                    if isinstance(d, ast.arguments):
                        return True
                    v = d.value if isinstance(d, (ast.Assign, ast.AnnAssign)) and any(
                        isinstance(t, ast.Name) and t.id == x.id for t in (d.targets if isinstance(d, ast.Assign) else [d.target])) else None
                    if v is not None and may_be_param(v, depth + 1):
                        return True                   # `values = values or {}`, `values = {} if values is None else values`
                return False
            if isinstance(x, ast.BoolOp):
                return any(may_be_param(v, depth + 1) for v in x.values)
            if isinstance(x, ast.IfExp):
                return may_be_param(x.body, depth + 1) or may_be_param(x.orelse, depth + 1)
            return False
        return may_be_param(e)

    # -- classification of one fill
    @staticmethod
    def _same(a, b) -> bool:
        return a is not None and b is not None and ast.dump(a) == ast.dump(b)

    def _lookup_of(self, e, dname, key):
        """'presence' / 'truthy-able' description of a lookup of `key` in the caller's dict: D[k], D.get(k), D.get(k, None), D.pop(k, None)"""
        if isinstance(e, ast.Subscript) and isinstance(e.value, ast.Name) and e.value.id == dname and (key is None or self._same(e.slice, key)):
            return True
        if isinstance(e, ast.Call) and isinstance(e.func, ast.Attribute) and e.func.attr in ("get", "pop") and isinstance(e.func.value, ast.Name) \
                and e.func.value.id == dname and e.args and (key is None or self._same(e.args[0], key)):
            return len(e.args) == 1 or (isinstance(e.args[1], ast.Constant) and e.args[1].value is None)
        return False

    def _test_kind(self, f, t, dname, key):
        """(kind, polarity): kind 'presence' (k in D / k not in D / D.get(k) is None), 'truthiness' (the looked-up value itself is the
        test) or None (the test does not concern D); polarity True = the test is true when the key is PRESENT (resp. value truthy)."""
        if isinstance(t, ast.UnaryOp) and isinstance(t.op, ast.Not):
            k, p = self._test_kind(f, t.operand, dname, key)
            return k, (None if p is None else not p)
        if isinstance(t, ast.Compare) and len(t.ops) == 1:
            op, l, r = t.ops[0], t.left, t.comparators[0]
            if isinstance(op, (ast.In, ast.NotIn)):
                cont = r.func.value if isinstance(r, ast.Call) and isinstance(r.func, ast.Attribute) and r.func.attr == "keys" else r
                if isinstance(cont, ast.Name) and cont.id == dname and (key is None or self._same(l, key)):
                    return "presence", isinstance(op, ast.In)
            if isinstance(op, (ast.Is, ast.IsNot)) and isinstance(r, ast.Constant) and r.value is None and self._lookup_of(l, dname, key):
                return "presence", isinstance(op, ast.IsNot)
            return None, None
        if self._lookup_of(t, dname, key):
            return "truthiness", True
        if isinstance(t, ast.Name) and self.md._shadowed(f, t.id):
            defs = self.ctx.rd(f).defs_reaching(t)
            vals = [getattr(d, "value", None) for d in defs if isinstance(d, (ast.Assign, ast.AnnAssign))]
            if vals and len(vals) == len(defs) and all(self._lookup_of(v, dname, key) for v in vals):
                return "truthiness", True
        if isinstance(t, ast.BoolOp):
            kinds = [self._test_kind(f, v, dname, key) for v in t.values]
            hit = [k for k in kinds if k[0] is not None]
            if len(hit) == 1:
                return hit[0]
            if hit:
                return "unknown", None
        return None, None

    def _guards(self, f, st):
        """[(test, branch taken to reach st: True body / False orelse)] of the if statements around st (innermost first) up to the
        function, plus preceding sibling `if <test>: continue / return` statements (branch False)."""
        out = []
        cur = st
        for a in ancestors(st):
            if isinstance(a, (ast.FunctionDef, ast.AsyncFunctionDef)):
                break
            for fld in ("body", "orelse", "finalbody"):
                b = getattr(a, fld, None)
                if isinstance(b, list) and any(x is cur for x in b):
                    i = [x is cur for x in b].index(True)
                    for prev in b[:i]:
                        if isinstance(prev, ast.If) and not prev.orelse and prev.body and isinstance(prev.body[-1], (ast.Continue, ast.Return, ast.Raise, ast.Break)):
                            out.append((prev.test, False))
                    if isinstance(a, ast.If):
                        out.append((a.test, fld == "body"))
            if isinstance(a, ast.stmt):
                cur = a
        return out

    def fill(self, f, c, st, dname, key, value_expr, how):
        """one completion site: statement st puts (an expression of) a cached value under `key` into the caller's dict `dname`"""
        label = f"{c.key}: cached default completes `{dname}` [{norm(st, 90)}]"
        e = value_expr
        # the decision inside the expression
        if isinstance(e, ast.BoolOp) and isinstance(e.op, ast.Or) and self._lookup_of(e.values[0], dname, key):
            return self.emit("violation", f, st, label, f"`{norm(e)}` keeps the caller's value only when it is truthy: an explicit 0 / 0.0 / "
                             f"empty value is replaced by the default cached for an earlier node or model")
        if isinstance(e, ast.IfExp):
            k, pol = self._test_kind(f, e.test, dname, key)
            if k == "truthiness":
                return self.emit("violation", f, st, label, f"`{norm(e)}` decides by the truthiness of the caller's value: an explicit 0 / 0.0 "
                                 f"is replaced by the default cached for an earlier node or model")
            if k == "presence":
                own = e.body if pol else e.orelse
                if self._lookup_of(own, dname, key):
                    return self.emit("ok", f, st, label, "the caller's value is kept whenever the key is present")
                return self.emit("violation", f, st, label, f"`{norm(e)}` takes the cached default although the key is present in `{dname}`")
            raise AnalysisError(f"{self.rid}: cannot tell how `{norm(e)}` in {f.qual} chooses between the caller's value and the cached default")
        if isinstance(e, ast.Call) and isinstance(e.func, ast.Attribute) and e.func.attr == "get" and isinstance(e.func.value, ast.Name) \
                and e.func.value.id == dname and len(e.args) == 2:
            return self.emit("ok", f, st, label, "`.get(key, default)` keeps the caller's value whenever the key is present")
        if how == "setdefault":
            return self.emit("ok", f, st, label, "`.setdefault` keeps the caller's value whenever the key is present")
        # the decision around the statement
        for test, branch in self._guards(f, st):
            k, pol = self._test_kind(f, test, dname, key)
            if k is None:
                continue
            if k == "unknown":
                raise AnalysisError(f"{self.rid}: the guard `{norm(test)}` of `{norm(st)}` in {f.qual} mixes several tests of `{dname}` (unrecognised form)")
            reached_when_true = branch
            if k == "presence":
                if pol != reached_when_true:
                    return self.emit("ok", f, st, label, f"the cached default is filled in only where the key is absent (`{norm(test)}`)")
                return self.emit("violation", f, st, label, f"`{norm(st)}` runs where the key IS present in `{dname}` (`{norm(test)}`): the cached "
                                 f"default overwrites the value the caller gave")
            if pol != reached_when_true:
                return self.emit("violation", f, st, label, f"`{norm(st)}` is guarded by the truthiness of the caller's value (`{norm(test)}`): an "
                                 f"explicit 0 / 0.0 / empty value counts as absent and is replaced by the default cached for an earlier node or model")
            return self.emit("violation", f, st, label, f"`{norm(st)}` runs where the caller's value is truthy (`{norm(test)}`): the cached default "
                             f"overwrites it")
        return self.emit("violation", f, st, label, f"`{norm(st)}` puts the cached default into `{dname}` without asking whether the caller gave "
                         f"that key: an explicit value is overwritten by what an earlier node or model left in the cache")

    def emit(self, status, f, st, label, msg):
        self.sites.append((status, f, st, msg, label))

    # -- scan
    def scan(self, f, c, T, depth):
        cfg = self.ctx.cfg(f)
        for n in walk_shallow(f.node):
            if isinstance(n, (ast.Assign, ast.AnnAssign)) and n.value is not None:
                for tg in (n.targets if isinstance(n, ast.Assign) else [n.target]):
                    if isinstance(tg, ast.Subscript) and self.is_callers_dict(f, tg.value) and T(n.value):
                        self.fill(f, c, n, tg.value.id, tg.slice, n.value, "store")
                    elif isinstance(tg, ast.Name) and tg.id in f.params and isinstance(n.value, ast.Dict) and None in n.value.keys:
                        # D = {**a, **b}: later entries win
                        parts = [v for k, v in zip(n.value.keys, n.value.values) if k is None]
                        di = [i for i, v in enumerate(parts) if self.is_callers_dict(f, v) and v.id == tg.id]
                        ci = [i for i, v in enumerate(parts) if T(v)]
                        if di and ci:
                            label = f"{c.key}: cached default completes `{tg.id}` [{norm(n, 90)}]"
                            if max(ci) < min(di):
                                self.emit("ok", f, n, label, "the caller's entries are unpacked last: they win over the cached defaults")
                            else:
                                self.emit("violation", f, n, label, f"`{norm(n.value)}` unpacks the cached defaults after the caller's entries: every "
                                          f"explicit value is overwritten by what an earlier node or model left in the cache")
            elif isinstance(n, ast.Call) and isinstance(n.func, ast.Attribute) and self.is_callers_dict(f, n.func.value):
                st = stmt_of(cfg, n)
                if n.func.attr == "setdefault" and len(n.args) == 2 and T(n.args[1]):
                    self.fill(f, c, st, n.func.value.id, n.args[0], n.args[1], "setdefault")
                elif n.func.attr == "update" and len(n.args) == 1 and T(n.args[0]):
                    self.emit("violation", f, st, f"{c.key}: cached default completes `{n.func.value.id}` [{norm(st, 90)}]",
                              f"`{norm(n)}` lets every cached default overwrite the value the caller gave for that key")
            elif isinstance(n, ast.Call) and depth < 2:
                args = [(a, None, i) for i, a in enumerate(n.args) if not isinstance(a, ast.Starred)] + \
                       [(k.value, k.arg, None) for k in n.keywords if k.arg is not None]
                targs = [(a, kw, pos) for a, kw, pos in args if T(a)]
                if not targs:
                    continue
                for t in self.md.ext_resolve(f, n)[0]:
                    for a, kw, pos in targs:
                        pn = self.md._param_for(t, n, kw, pos)
                        if pn is None or pn not in t.params or (c.key, t.qual, pn) in self._seen:
                            continue
                        self._seen.add((c.key, t.qual, pn))
                        self.scan(t, c, self.taint(t, [], param=pn), depth + 1)


def r9_explicit_value_wins_over_cached_default(ctx, rid):
    md = model(ctx)
    cc = CacheCompletion(ctx, rid)
    n_caches = 0
    for key in sorted(md.containers):
        c = md.containers[key]
        if c.kind not in ("module", "class"):
            continue
        fx = facts_of(ctx, c)
        if fx.klass != "cache":
            continue
        n_caches += 1
        for f in sorted({e.f for e in fx.runtime if e.kind == "keyread"}, key=lambda x: x.qual):
            seeds = [e.node for e in fx.runtime if e.f is f and e.kind == "keyread"]
            cc.scan(f, c, cc.taint(f, seeds), 0)
    ctx.require(n_caches >= 1, f"{rid}: no keyed cache among the global containers")
    seen = set()
    for status, f, st, msg, label in cc.sites:
        if (f.qual, label) in seen:
            continue
        seen.add((f.qual, label))
        if status == "ok":
            ctx.ok(rid, f, st, msg, label=label)
        else:
            ctx.violation(rid, f, st, msg, label=label)
    if not cc.sites:
        raise AnalysisError(f"{rid}: no statement completes a caller's dict from a cache entry (anchor: OperatorTemplate.apply fills `values` "
                            f"from the cached defaults on the pinned tree) - the completion has a form that is not recognised")



# =====================================================================================================================
# R10  an ownership record that licenses in-place writes is dropped wherever the owned objects get another holder
# =====================================================================================================================

def r10_ownership_record_dropped_on_hand_over(ctx, rid):
    """Copy-on-write: a circuit that remembers "these node templates are mine" writes into them in place.  The memory is history:
    once the templates are handed to another holder (a derived circuit built from this one's node table), an in-place write of the
    first changes the second - a model inherits values from a model edited earlier.  So every method that passes the held templates
    to a newly constructed circuit must empty the record on every path (analysis shared with C17-R8)."""
    from .c17 import ownership_discipline
    od = ownership_discipline(ctx, rid)
    if od is None:
        f = ctx.repo.get_func(CIRCUIT_T, "CircuitTemplate.update_var")
        ctx.info(rid, f, f.node, "update_var keeps no ownership record: every node override is written into a fresh copy (C17-R8 / C07-R1)",
                 label="no ownership record")
        return
    label = f"ownership record self.{od['record']} is dropped on hand-over"
    if od["leaks"]:
        for g, c, text in od["leaks"]:
            ctx.violation(rid, g, c, f"{text}: {od['accessor'].qualname} keeps returning those templates for in-place writes, so a later "
                          f"update_var on this circuit silently changes the circuit that was derived from it (and vice versa)", label=label)
    else:
        g = od["accessor"]
        ctx.ok(rid, g, g.node, f"every method that hands the templates held in self.{'/'.join(sorted(od['holders']))} to a new circuit object "
                               f"empties self.{od['record']} on every path", label=label)



# =====================================================================================================================
# R11  what is handed out of a retained content-keyed cache shares no mutable container with it
# =====================================================================================================================

def r11_cached_content_handed_out_as_deep_copy(ctx, rid):
    """A second load of the same definition must yield the same result whatever was loaded before.  A content-keyed cache keeps the
    parsed content; its consumers edit what they receive (pop keys, write overrides).  So a mutable value read from a cache that
    lives on (module / class level) may leave the function that holds the cache only as a deep copy: the cached object itself, or a
    shallow copy of it, shares its nested containers with the cache and the next hit returns the edited content."""
    from engine.effects import analyse, fmt_origin, DEEP_COPIERS
    md = model(ctx)
    eff = ctx.effects
    n = 0
    for key in sorted(md.containers):
        c = md.containers[key]
        if c.kind not in ("module", "class") or c.module is None:
            continue
        fx = facts_of(ctx, c)
        if fx.klass != "cache":
            continue

        def from_cache(o):
            while o[0] == "C":
                o = o[1]
            return o[0] == "G" and o[1] == c.module.rel and o[2] == c.name and len(o[3]) >= 1
        # (a) the cache is handed to a callee that returns entries of it: the call's value in the function that owns the cache
        for e in c.events:
            if e.f is None or e.kind != "argmut" or not isinstance(e.node, ast.Call):
                continue
            an = analyse(eff, e.f, None)
            orig = an.origins(e.node)
            if not any(from_cache(o) for o in orig):
                continue
            n += 1
            label = f"content of {c.key} leaves {e.f.qualname} as a deep copy"
            p = parent(e.node)
            wrapped = isinstance(p, ast.Call) and call_name(p) in DEEP_COPIERS and e.node in p.args
            facts = {"origins": sorted(fmt_origin(o) for o in orig), "call": norm(e.node)}
            if wrapped:
                ctx.ok(rid, e.f, e.node, f"`{norm(p, 80)}`: what {e.f.qualname} works on is a deep copy of the cached content", facts, label=label)
                continue
            how = "a shallow copy of" if isinstance(p, ast.Call) and (call_name(p) in ("dict", "list", "copy") or
                                                                        (isinstance(p.func, ast.Attribute) and p.func.attr == "copy")) else "the very object kept in"
            # is it consumed destructively / passed on?
            st = p
            while st is not None and not isinstance(st, ast.stmt):
                st = parent(st)
            names = [t.id for t in getattr(st, "targets", []) if isinstance(t, ast.Name)] if isinstance(st, ast.Assign) else []
            used = []
            for nm in names:
                for use in md._loads_reached(e.f, st, nm):
                    q = parent(use)
                    if isinstance(q, ast.keyword) or (isinstance(q, ast.Call) and use in q.args) or isinstance(q, ast.Return) \
                            or (isinstance(q, ast.Attribute) and isinstance(parent(q), ast.Call) and q.attr in MUTATORS) \
                            or (isinstance(q, ast.Subscript) and isinstance(q.ctx, (ast.Store, ast.Del))) or isinstance(q, ast.Starred):
                        used.append(norm(parent(q) if isinstance(q, (ast.Attribute, ast.keyword)) else q, 60))
            if isinstance(st, ast.Return) or used:
                ctx.violation(rid, e.f, e.node, f"{e.f.qualname} works on {how} `{key}` content (`{norm(st, 90)}`) and "
                              f"{'returns it' if isinstance(st, ast.Return) else 'edits / passes it on: ' + ', '.join(used[:3])}: the nested containers "
                              f"(equation edits, variables, overrides) are still the cache's own, so whatever a consumer pops or writes is seen by "
                              f"the next load of the same definition", facts, label=label)
            else:
                raise AnalysisError(f"{rid}: cannot tell what {e.f.qualname} does with the cached content it receives from `{norm(e.node)}`")
        # (b) the cache is read directly by the function that hands its entries out: listed, not decided here (cached objects that are
        # meant to be shared - compiled modules, template objects - and private helpers whose caller copies cannot be told apart from a
        # leak by the return value alone; C14 / C15 decide those cases)
        for g in sorted({e.f for e in c.events if e.f is not None and e.kind == "keyread"}, key=lambda x: x.qual):
            if any(from_cache(o) for o in eff.returns(g, None)):
                ctx.info(rid, g, g.node, f"{g.qualname} returns (part of) an entry of `{key}` to its callers (not decided here)",
                         label=f"content of {c.key} handed out by {g.qualname}")
    if n == 0:
        ctx.info(rid, None, None, "no content-keyed cache hands entries to a caller", construct="C13-R11::no cache hands out content", loc="-")


RULES = [
    ("C13-R1", r1_inventory, 25),
    ("C13-R2", r2_cache_keys, 5),
    ("C13-R3", r3_reset_before_use, 6),
    ("C13-R4", r4_registry_copies, 3),
    ("C13-R5", r5_template_compile_state_rebound, 2),
    ("C13-R6", r6_stale_layout_dropped_before_use, 2),
    ("C13-R7", r7_generator_reset_with_its_caches, 1),
    ("C13-R8", r8_process_global_precision_switch, 1),
    ("C13-R9", r9_explicit_value_wins_over_cached_default, 1),
    ("C13-R10", r10_ownership_record_dropped_on_hand_over, 0),
    ("C13-R11", r11_cached_content_handed_out_as_deep_copy, 0),
]
