"""C06 — a variable path addresses the same variable everywhere (DESIGN §4 C06).

Also hosts the small def-use helpers (`same_value`, `comp_generator_of`, `resolve_local`, `binding_loop`) that the C08 and C17
modules import.
"""
from __future__ import annotations

import ast
from typing import Callable, Dict, FrozenSet, List, Optional, Set, Tuple

from engine import AnalysisError
from engine.srcmodel import walk_shallow, norm, parent, ancestors
from engine.util import call_name, enumerate_paths, contains, fstring_template
from engine.cfg import CFG, stmt_of
from engine.dataflow import assigned_value, target_names
from engine.inline import inlined

PROPERTY = "C06"
REL = "pyrates/frontend/template/circuit.py"
CLS = "CircuitTemplate"

EXPLANATION = (
    "That every DataFrame column carries the trajectory of the variable named in its label is not decidable statically.  Decided "
    "(structural necessary conditions on pyrates/frontend/template/circuit.py): R1 two name-spaces never mix - a taint analysis "
    "(reaching definitions per function, container flags for dict keys/values and list elements, return summaries of every function "
    "of the module iterated to a fixpoint) shows that no value derived from a result of CircuitTemplate._relabel_var (a *backend* "
    "label after vectorisation) reaches a sink that interprets *frontend* paths: any argument of get_nodes, the argument of "
    "_get_var_idx, a subscript of _vectorization_indices or of a local alias of it.  R2 in CircuitTemplate.run the list that becomes "
    "DataFrame(columns=) and the list that becomes DataFrame(data=) are appended in lock-step: on every path through the "
    "column-building loop (inner loops taken 0 and 1 times) the k-th label append is paired with the k-th data append, the pair sits "
    "in the same loops, and label and data are determined by the same loop bindings (same key, same sub-key, same unit counter).  "
    "R3 in get_variable_positions every entry written to the index map and to the backend-variable map uses one path: the argument "
    "of _get_var_idx and the argument of _relabel_var are the same value, both maps are keyed by the same value, the re-labelling uses "
    "_vectorization_labels, and the path is `<node>/<op>/<var>` with <node> the element of the get_nodes result the entry is written "
    "for and <op>/<var> the pair that get_nodes was asked to resolve (the look-up may sit in a helper that returns the node list "
    "together with op and var; a fresh dict bound to a local and stored under the index map counts as part of the index map).  R6 a path identifier object that a caller hands to a path resolver "
    "(get_nodes and the other functions that accept a path as string or list of levels) more than once - every sibling of a wildcard "
    "level, every iteration of a loop - is not edited in place by that resolver (mutation summaries of the effect analysis: pop / del / "
    "remove / insert / slice assignment on the parameter, an alias of it or in a callee), otherwise later siblings resolve a shortened "
    "path.  R7 in the path resolvers and the methods they delegate to, a container that outlives one loop iteration and is both filled "
    "and consulted inside the loop (a memo of per-node decisions) is keyed by the loop element, by values built from loop variables or "
    "by the identity of the object looked up for the element - never by an attribute of that object (template .name/.path are not "
    "unique per node) or by a loop-invariant value.  R8 wherever circuit.py looks up the per-edge column index that _add_input writes "
    "(`source_idx`, and its target counterpart) with a default, the result is not tested by truthiness when the stored value is a "
    "single index (index 0 is legal): presence is decided by membership, comparison with None or a raising look-up.  R9 wherever a "
    "get_nodes result is used by position (enumerate / zip / index / range(len)), it reaches that use in the resolver's order: "
    "copies are fine, sorted / np.sort / np.unique / set / reversed / [::-1] / argsort indexing / in-place sort are reported.  R10 update_var (helpers spliced in) writes a node template in place only when it is "
    "a copy made for this node, or when a registry licenses the write (`id(x) in R`) and no object that is handed to a further node "
    "(read back from a container, given to add_node_template again) can stay registered in R on that path.  R11 run() and the helpers it delegates to cut every requested trajectory out of its "
    "recording at the computed positions; handing out the columns of ONE recording in request order without indexing is accepted only "
    "under a guard that shows every key is served by that recording (`... is rec` for all keys) and the positions are 0..n-1; a guard "
    "that compares sizes only is reported.  NOT decided: that get_nodes enumerates wildcards in declaration "
    "order for every hierarchy (dict insertion order, library guarantee), the numerical values, what the backend does with the index."
)
RULE_TEXT = ("R1: one obligation per sink (call of get_nodes/_get_var_idx resolved through the call graph, subscript of the index "
             "table), sources = call sites of _relabel_var (every call spelt like a source/sink must have been resolved to it); R2: one "
             "obligation per label append + frame assembly, in run() or in the helper run() delegates the assembly to; R3: three "
             "obligations per (index, backend key) entry; R6: one obligation per call site of a path resolver and one per resolver; R7: one per outermost loop of a resolver / per memo.  Non-trivial = decided by def-use/taint, path pairing or value identity.")
ASSUMPTIONS = [
    "Values returned by functions outside pyrates/frontend/template/circuit.py carry no backend label derived from _relabel_var "
    "(the taint analysis is inter-procedural only inside that module, through return summaries; parameters are assumed clean).",
    "Two textually equal expressions whose names have identical reaching definitions denote the same value (no intervening "
    "mutation of the strings involved; they are immutable str objects).",
]

# --------------------------------------------------------------------------------------------
# shared def-use helpers (also imported by c08 / c17)
# --------------------------------------------------------------------------------------------

COMPS = (ast.ListComp, ast.SetComp, ast.DictComp, ast.GeneratorExp)
_FUNCS = (ast.FunctionDef, ast.AsyncFunctionDef)


def comp_generator_of(name: ast.Name):
    """The comprehension generator that binds this use of a name, the string 'lambda' for a lambda parameter, or None."""
    for a in ancestors(name):
        if isinstance(a, COMPS):
            gens = a.generators
            vis = len(gens)
            for i, g in enumerate(gens):
                if contains(g.iter, name):
                    vis = i
                    break
                if any(contains(c, name) for c in g.ifs):
                    vis = i + 1
                    break
            for g in reversed(gens[:vis]):
                if name.id in target_names(g.target):
                    return g
        elif isinstance(a, ast.Lambda):
            args = a.args
            if name.id in [x.arg for x in args.posonlyargs + args.args + args.kwonlyargs]:
                return "lambda"
        elif isinstance(a, _FUNCS):
            break
    return None


def same_value(ctx, f, a: ast.AST, b: ast.AST) -> bool:
    """Structurally equal expressions all of whose names have identical bindings (reaching definitions / comprehension)."""
    if ast.dump(a) != ast.dump(b):
        return False
    rd = ctx.rd(f)
    na = [n for n in ast.walk(a) if isinstance(n, ast.Name)]
    nb = [n for n in ast.walk(b) if isinstance(n, ast.Name)]
    for x, y in zip(na, nb):
        gx, gy = comp_generator_of(x), comp_generator_of(y)
        if gx is not None or gy is not None:
            if gx is not gy:
                return False
            continue
        if {id(d) for d in rd.defs_reaching(x)} != {id(d) for d in rd.defs_reaching(y)}:
            return False
    return True


def resolve_local(ctx, f, e: ast.AST, depth: int = 4) -> ast.AST:
    """Follow `name = expr` while the name has exactly one reaching plain definition."""
    while depth > 0 and isinstance(e, ast.Name) and comp_generator_of(e) is None:
        defs = ctx.rd(f).defs_reaching(e)
        if len(defs) != 1:
            break
        v = assigned_value(defs[0], e.id)
        if v is None:
            break
        e = v
        depth -= 1
    return e


def binding_loop(ctx, f, name: ast.Name):
    """If this use is bound by exactly one `for` statement or comprehension generator: (target, iter, node) else None."""
    g = comp_generator_of(name)
    if g == "lambda":
        return None
    if g is not None:
        return g.target, g.iter, g
    defs = ctx.rd(f).defs_reaching(name)
    if len(defs) == 1 and isinstance(defs[0], (ast.For, ast.AsyncFor)):
        return defs[0].target, defs[0].iter, defs[0]
    return None


def position_in_target(target: ast.AST, name: str) -> Optional[int]:
    """Index of the element of a tuple target that binds `name` (None when the target is a single name / not found)."""
    if isinstance(target, (ast.Tuple, ast.List)):
        for i, t in enumerate(target.elts):
            if name in target_names(t):
                return i
    return None


def block_of(st: ast.stmt) -> Optional[list]:
    p = parent(st)
    for field in ("body", "orelse", "finalbody"):
        b = getattr(p, field, None)
        if isinstance(b, list) and any(x is st for x in b):
            return b
    return None


def ordered(nodes):
    return sorted(nodes, key=lambda n: (getattr(n, "lineno", 0), getattr(n, "col_offset", 0)))


def hosts_of(ctx, h, found, skip=(), depth: int = 2):
    """Functions that satisfy `found` - `h` itself or, when it does not, functions of the same module that `h` calls (resolved
    through the call graph, up to `depth` levels): [(function, [(caller, call node, callee), ...])]."""
    if found(h):
        return [(h, [])]
    out, seen = [], set()

    def visit(fn, chain, d):
        for c in ordered([c for c in walk_shallow(fn.node) if isinstance(c, ast.Call)]):
            try:
                targets, how = ctx.cg.resolve_call(fn, c)
            except Exception:
                continue
            if how == "external" or str(how).startswith("unresolved") or (how == "by-name" and len(targets) != 1):
                continue
            for t in targets:
                if t in skip or t is fn or getattr(t.module, "rel", None) != h.module.rel or (id(t), id(c)) in seen:
                    continue
                seen.add((id(t), id(c)))
                link = chain + [(fn, c, t)]
                if found(t):
                    if not any(o[0] is t and o[1][0][1] is link[0][1] for o in out):
                        out.append((t, link))
                elif d > 1:
                    visit(t, link, d - 1)
    visit(h, [], depth)
    uniq = []
    for t, link in out:
        if not any(u[0] is t for u in uniq):
            uniq.append((t, link))
    return uniq


# --------------------------------------------------------------------------------------------
# order of a resolved node list (shared with C08-R2)
# --------------------------------------------------------------------------------------------

ORDER_KEEPING_FUNCS = {"list", "tuple", "array", "asarray", "copy", "deepcopy"}
ORDER_KEEPING_METHODS = {"tolist", "copy"}
ORDER_CHANGING = {"sorted": "sorts it", "sort": "sorts it", "set": "turns it into a set (arbitrary order, duplicates dropped)",
                  "frozenset": "turns it into a set (arbitrary order, duplicates dropped)", "reversed": "reverses it",
                  "unique": "sorts it and drops duplicates (numpy.unique returns sorted output)", "fromkeys": "drops duplicates",
                  "shuffle": "shuffles it", "permutation": "shuffles it", "flip": "reverses it", "argsort": "orders it by sorted position"}


def peel_node_list(e: ast.AST):
    """(innermost expression, [(wrapper name, effect)...]) after removing order-keeping wrappers (list, tuple, np.array, .tolist(),
    [:]) and recording order-changing / duplicate-dropping ones (sorted, np.sort, set, reversed, np.unique, dict.fromkeys, [::-1],
    indexing with an argsort); an unknown wrapper stops."""
    changes = []
    while True:
        if isinstance(e, ast.Call) and isinstance(e.func, ast.Attribute) and e.func.attr in ORDER_KEEPING_METHODS and not e.args \
                and not e.keywords:
            e = e.func.value
            continue
        if isinstance(e, ast.Call) and len(e.args) >= 1 and not isinstance(e.args[0], ast.Starred):
            nm = call_name(e)
            if nm in ORDER_KEEPING_FUNCS and len(e.args) == 1 and all(k.arg in ("dtype", "copy") for k in e.keywords):
                e = e.args[0]
                continue
            if nm in ORDER_CHANGING:
                changes.append((nm, ORDER_CHANGING[nm]))
                e = e.args[0]
                continue
        if isinstance(e, ast.Subscript) and isinstance(e.slice, ast.Slice) and e.slice.lower is None and e.slice.upper is None:
            st = e.slice.step
            if st is None:
                e = e.value
                continue
            if isinstance(st, ast.UnaryOp) and isinstance(st.op, ast.USub) and isinstance(st.operand, ast.Constant) and st.operand.value == 1:
                changes.append(("[::-1]", "reverses it"))
                e = e.value
                continue
        if isinstance(e, ast.Subscript) and any(isinstance(n, ast.Call) and call_name(n) == "argsort" for n in ast.walk(e.slice)):
            changes.append(("[argsort]", "re-orders it by sorted position"))
            e = e.value
            continue
        return e, changes


# --------------------------------------------------------------------------------------------
# R1 — taint: backend labels must not reach frontend sinks
# --------------------------------------------------------------------------------------------

S, K, V = "S", "K", "V"      # S: is / contains as element a backend label; K: dict keys are; V: dict values / nested containers are
NONE: FrozenSet[str] = frozenset()
ANY = frozenset((S, K, V))
STR_METHODS = {"split", "rsplit", "strip", "lstrip", "rstrip", "replace", "lower", "upper", "removeprefix", "removesuffix",
               "partition", "rpartition", "splitlines", "title", "capitalize"}
SEQ_BUILTINS = {"list", "tuple", "set", "frozenset", "sorted", "reversed", "iter", "next", "enumerate", "zip"}
COPY_FUNCS = {"dict", "deepcopy", "copy"}


class Summary:
    __slots__ = ("whole", "elems")

    def __init__(self, whole=NONE, elems=None):
        self.whole = frozenset(whole)
        self.elems = None if elems is None else [frozenset(x) for x in elems]

    def flat(self) -> FrozenSet[str]:
        if self.elems is None:
            return self.whole
        return _seq_flags(self.elems)

    def __eq__(self, o):
        return isinstance(o, Summary) and self.whole == o.whole and self.elems == o.elems

    def merged(self, o: "Summary") -> "Summary":
        if self.elems is not None and o.elems is not None and len(self.elems) == len(o.elems):
            return Summary(elems=[a | b for a, b in zip(self.elems, o.elems)])
        return Summary(whole=self.flat() | o.flat())


def _seq_flags(parts) -> FrozenSet[str]:
    out = set()
    for p in parts:
        if S in p:
            out.add(S)
        if K in p or V in p:
            out.add(V)
    return frozenset(out)


def _elem(fl: FrozenSet[str]) -> FrozenSet[str]:
    """Flags of one element obtained by iterating / unpacking a value with flags fl."""
    out = set()
    if S in fl or K in fl:
        out.add(S)
    if V in fl and S not in fl and K not in fl:
        out |= ANY
    return frozenset(out)


class Taint:
    """Per-function taint evaluation.  Plain names are flow-sensitive (reaching definitions); container mutation
    (`x.append(t)`, `x[k] = t`, ...) taints the container name flow-insensitively."""

    def __init__(self, ctx, f, oracle: Callable):
        self.ctx, self.f = ctx, f
        self.rd = ctx.rd(f)
        self.oracle = oracle
        self.mut: Dict[str, FrozenSet[str]] = {}
        self._memo: Dict[int, FrozenSet[str]] = {}
        self._dmemo: Dict[Tuple[int, str], FrozenSet[str]] = {}
        self._busy: Set = set()
        self._solve_mut()

    # ---- container mutation --------------------------------------------------------------------
    @staticmethod
    def _root(e):
        """(root name, number of subscript levels) of `name[..][..]`."""
        depth = 0
        while isinstance(e, ast.Subscript):
            e = e.value
            depth += 1
        return (e.id, depth) if isinstance(e, ast.Name) else (None, depth)

    def _solve_mut(self):
        nodes = list(walk_shallow(self.f.node))
        for _ in range(8):
            new: Dict[str, Set[str]] = {}
            self._memo.clear()
            self._dmemo.clear()

            def add(nm, *fl):
                if nm is not None and fl:
                    new.setdefault(nm, set()).update(fl)
            for n in nodes:
                if isinstance(n, ast.Call) and isinstance(n.func, ast.Attribute):
                    nm, depth = self._root(n.func.value)
                    if nm is None:
                        continue
                    m = n.func.attr
                    inner = depth > 0
                    if m in ("append", "add", "insert") and n.args:
                        fl = self.flags(n.args[-1])
                        if fl and inner:
                            add(nm, V)
                        elif fl:
                            if S in fl:
                                add(nm, S)
                            if K in fl or V in fl:
                                add(nm, V)
                    elif m == "extend" and n.args:
                        fl = _elem(self.flags(n.args[0]))
                        if fl:
                            add(nm, V if inner else S)
                    elif m == "update":
                        for a in n.args:
                            fl = self.flags(a)
                            if inner and fl:
                                add(nm, V)
                            elif not inner:
                                add(nm, *[x for x in fl if x in (K, V)])
                        if any(self.flags(k.value) for k in n.keywords):
                            add(nm, V)
                    elif m == "setdefault" and n.args:
                        if S in self.flags(n.args[0]):
                            add(nm, V if inner else K)
                        if len(n.args) > 1 and self.flags(n.args[1]):
                            add(nm, V)
                elif isinstance(n, (ast.Assign, ast.AugAssign, ast.AnnAssign)):
                    tgts = n.targets if isinstance(n, ast.Assign) else [n.target]
                    for t in tgts:
                        if not isinstance(t, ast.Subscript):
                            continue
                        nm, depth = self._root(t)
                        if nm is None or n.value is None:
                            continue
                        vfl = self.flags(n.value)
                        kfl = self.flags(t.slice)
                        if depth == 1:
                            if S in kfl:
                                add(nm, K)
                            if vfl:
                                add(nm, V)
                        else:
                            if S in kfl or vfl:
                                add(nm, V)
                            outer = t
                            while isinstance(outer.value, ast.Subscript):
                                outer = outer.value
                            if S in self.flags(outer.slice):
                                add(nm, K)
            frozen = {k: frozenset(v) for k, v in new.items()}
            if frozen == self.mut:
                break
            self.mut = frozen
        else:
            raise AnalysisError(f"C06-R1: container taint of {self.f.qual} did not converge")
        self._memo.clear()
        self._dmemo.clear()

    # ---- expressions ---------------------------------------------------------------------------
    def flags(self, e) -> FrozenSet[str]:
        if e is None:
            return NONE
        k = id(e)
        if k in self._memo:
            return self._memo[k]
        if k in self._busy:
            return NONE
        self._busy.add(k)
        try:
            r = frozenset(self._flags(e))
        finally:
            self._busy.discard(k)
        self._memo[k] = r
        return r

    def _flags(self, e):
        if isinstance(e, ast.Constant):
            return NONE
        if isinstance(e, ast.Name):
            return self._name(e)
        if isinstance(e, ast.JoinedStr):
            return {S} if any(S in self.flags(v) for v in e.values) else NONE
        if isinstance(e, ast.FormattedValue):
            return self.flags(e.value)
        if isinstance(e, ast.BinOp):
            return self.flags(e.left) | self.flags(e.right)
        if isinstance(e, ast.BoolOp):
            out = set()
            for v in e.values:
                out |= self.flags(v)
            return out
        if isinstance(e, ast.IfExp):
            return self.flags(e.body) | self.flags(e.orelse)
        if isinstance(e, (ast.Tuple, ast.List, ast.Set)):
            return _seq_flags([self.flags(x) for x in e.elts])
        if isinstance(e, ast.Dict):
            out = set()
            if any(k is not None and S in self.flags(k) for k in e.keys):
                out.add(K)
            for k, v in zip(e.keys, e.values):
                fv = self.flags(v)
                if k is None:
                    out |= {x for x in fv if x in (K, V)}
                elif fv:
                    out.add(V)
            return out
        if isinstance(e, ast.Starred):
            return self.flags(e.value)
        if isinstance(e, ast.Subscript):
            fv = self.flags(e.value)
            if isinstance(e.slice, ast.Slice):
                return fv
            out = set()
            if S in fv:
                out.add(S)
            if V in fv:
                out |= ANY
            return out
        if isinstance(e, ast.NamedExpr):
            return self.flags(e.value)
        if isinstance(e, (ast.ListComp, ast.SetComp, ast.GeneratorExp)):
            return _seq_flags([self.flags(e.elt)])
        if isinstance(e, ast.DictComp):
            out = set()
            if S in self.flags(e.key):
                out.add(K)
            if self.flags(e.value):
                out.add(V)
            return out
        if isinstance(e, ast.Call):
            return self._call(e)
        return NONE

    def _call(self, e: ast.Call):
        summ = self.oracle(self.f, e)
        if summ is not None:
            return summ.flat()
        fn = e.func
        argfl = [self.flags(a) for a in e.args]
        if isinstance(fn, ast.Attribute):
            m = fn.attr
            fr = self.flags(fn.value)
            if m in STR_METHODS:
                return {S} if S in fr else NONE
            if m == "join":
                return {S} if any(S in _elem(a) for a in argfl) else NONE
            if m == "format":
                kw = [self.flags(k.value) for k in e.keywords]
                return {S} if (S in fr or any(S in a for a in argfl + kw)) else NONE
            if m == "copy":
                return fr
            if m == "deepcopy" and argfl:
                return argfl[0]
            if m == "keys":
                return {S} if K in fr else NONE
            if m == "values":
                return {V} if V in fr else NONE
            if m == "items":
                return {V} if (K in fr or V in fr) else NONE
            if m in ("pop", "get", "setdefault"):
                out = set()
                if V in fr:
                    out |= ANY
                if S in fr:
                    out.add(S)
                for a in argfl[1:]:
                    out |= a
                return out
            if m == "popitem":
                return {S} if (K in fr or V in fr) else NONE
            return NONE
        if isinstance(fn, ast.Name):
            if fn.id in ("str", "repr"):
                return {S} if argfl and S in argfl[0] else NONE
            if fn.id in SEQ_BUILTINS:
                out = set()
                for a in argfl:
                    out |= _elem(a) & {S}
                    if V in a:
                        out.add(V)
                return out
            if fn.id in COPY_FUNCS:
                return argfl[0] if argfl else NONE
        return NONE

    # ---- names -------------------------------------------------------------------------------
    def _name(self, n: ast.Name):
        g = comp_generator_of(n)
        if g == "lambda":
            return NONE
        if g is not None:
            return self._target(g.target, g.iter, n.id)
        out = set(self.mut.get(n.id, ()))
        for d in self.rd.defs_reaching(n):
            out |= self._def(d, n.id)
        return out

    def _def(self, d, name: str) -> FrozenSet[str]:
        key = (id(d), name)
        if key in self._dmemo:
            return self._dmemo[key]
        if key in self._busy:
            return NONE
        self._busy.add(key)
        try:
            r = frozenset(self._def_raw(d, name))
        finally:
            self._busy.discard(key)
        self._dmemo[key] = r
        return r

    def _def_raw(self, d, name):
        if isinstance(d, ast.Assign):
            out = set()
            for t in d.targets:
                out |= self._bind(t, d.value, name)
            return out | self._walrus(d.value, name)
        if isinstance(d, ast.AnnAssign):
            return self._bind(d.target, d.value, name) if d.value is not None else NONE
        if isinstance(d, ast.AugAssign):
            out = set(self.flags(d.value))
            for d2 in self.rd.defs_reaching_at(d, name):
                out |= self._def(d2, name)
            return out
        if isinstance(d, (ast.For, ast.AsyncFor)):
            return self._target(d.target, d.iter, name) | self._walrus(d.iter, name)
        if isinstance(d, (ast.If, ast.While)):
            return self._walrus(d.test, name)
        if isinstance(d, (ast.Expr, ast.Return)):
            return self._walrus(d.value, name)
        return NONE

    def _walrus(self, e, name):
        out = set()
        if e is not None:
            for n in ast.walk(e):
                if isinstance(n, ast.NamedExpr) and isinstance(n.target, ast.Name) and n.target.id == name:
                    out |= self.flags(n.value)
        return out

    def _bind(self, target, value, name):
        if isinstance(target, ast.Name):
            return self.flags(value) if target.id == name else NONE
        if isinstance(target, ast.Starred):
            return self._bind(target.value, value, name)
        if isinstance(target, (ast.Tuple, ast.List)):
            if name not in target_names(target):
                return NONE
            star = any(isinstance(x, ast.Starred) for x in target.elts)
            if isinstance(value, (ast.Tuple, ast.List)) and len(value.elts) == len(target.elts) and not star \
                    and not any(isinstance(x, ast.Starred) for x in value.elts):
                for te, ve in zip(target.elts, value.elts):
                    if name in target_names(te):
                        return self._bind(te, ve, name) if isinstance(te, ast.Name) else _elem(self.flags(ve))
            if isinstance(value, ast.Call) and not star:
                summ = self.oracle(self.f, value)
                if summ is not None and summ.elems is not None and len(summ.elems) == len(target.elts):
                    for te, fl in zip(target.elts, summ.elems):
                        if name in target_names(te):
                            return fl if isinstance(te, ast.Name) else _elem(fl)
            return _elem(self.flags(value))
        return NONE

    def _target(self, target, it, name):
        if name not in target_names(target):
            return NONE
        if isinstance(it, ast.Call):
            cn = call_name(it)
            two = isinstance(target, (ast.Tuple, ast.List)) and len(target.elts) == 2
            if cn == "enumerate" and isinstance(it.func, ast.Name) and it.args and two:
                if name in target_names(target.elts[0]):
                    return NONE
                return self._target(target.elts[1], it.args[0], name)
            if cn == "items" and isinstance(it.func, ast.Attribute) and two:
                fr = self.flags(it.func.value)
                if name in target_names(target.elts[0]):
                    return frozenset({S}) if K in fr else NONE
                return ANY if V in fr else NONE
            if cn == "keys" and isinstance(it.func, ast.Attribute):
                return frozenset({S}) if K in self.flags(it.func.value) else NONE
            if cn == "values" and isinstance(it.func, ast.Attribute):
                return ANY if V in self.flags(it.func.value) else NONE
            if cn == "zip" and isinstance(it.func, ast.Name) and isinstance(target, (ast.Tuple, ast.List)) \
                    and len(target.elts) == len(it.args) and not any(isinstance(x, ast.Starred) for x in list(target.elts) + list(it.args)):
                for te, a in zip(target.elts, it.args):
                    if name in target_names(te):
                        return self._target(te, a, name)
            if cn == "range" and isinstance(it.func, ast.Name):
                return NONE
        return _elem(self.flags(it))

    # ---- summaries ---------------------------------------------------------------------------
    def return_summary(self) -> Summary:
        rets = [n for n in walk_shallow(self.f.node) if isinstance(n, ast.Return) and n.value is not None]
        summ: Optional[Summary] = None
        for r in rets:
            v = r.value
            if isinstance(v, ast.Tuple) and not any(isinstance(x, ast.Starred) for x in v.elts):
                s = Summary(elems=[self.flags(x) for x in v.elts])
            else:
                s = Summary(whole=self.flags(v))
            summ = s if summ is None else summ.merged(s)
        return summ or Summary()


def module_taint(ctx):
    """Fixpoint of return summaries over all functions of circuit.py; source = CircuitTemplate._relabel_var."""
    cached = getattr(ctx, "_c06_taint", None)
    if cached is not None:
        return cached
    src = ctx.repo.get_func(REL, f"{CLS}._relabel_var")
    funcs = [f for f in ctx.repo.all_functions([REL])]
    summ: Dict[object, Summary] = {f: Summary() for f in funcs}
    summ[src] = Summary(whole={S})
    cg = ctx.cg
    resolved: Dict[int, list] = {}

    def targets(f, call):
        k = id(call)
        if k not in resolved:
            resolved[k] = list(cg.resolve_call(f, call)[0])
        return resolved[k]

    def oracle(f, call):
        ts = [t for t in targets(f, call) if t in summ]
        if not ts:
            return None
        s = summ[ts[0]]
        for t in ts[1:]:
            s = s.merged(summ[t])
        return s

    taints: Dict[object, Taint] = {}
    for _ in range(10):
        changed = False
        for f in funcs:
            if f == src:
                continue
            t = Taint(ctx, f, oracle)
            taints[f] = t
            new = t.return_summary()
            if new != summ[f]:
                summ[f] = new          # monotone: flags only grow with the summaries they are computed from
                changed = True
        if not changed:
            break
    else:
        raise AnalysisError("C06-R1: return summaries did not converge")
    taints[src] = Taint(ctx, src, oracle)
    ctx._c06_taint = (taints, summ, src, targets, funcs)
    return ctx._c06_taint


def _index_table_aliases(ctx, f):
    """Predicate: is this expression the frontend index table `_vectorization_indices` (or a local alias of it)?"""
    rd = ctx.rd(f)
    fwd = []        # (stmt, name): `<x>._vectorization_indices = name`
    for st in walk_shallow(f.node):
        if isinstance(st, ast.Assign) and isinstance(st.value, ast.Name) and any(
                isinstance(t, ast.Attribute) and t.attr == "_vectorization_indices" for t in st.targets):
            fwd.append((st, st.value.id))

    def is_table(e, depth=4) -> bool:
        if isinstance(e, ast.Attribute) and e.attr == "_vectorization_indices":
            return True
        if isinstance(e, ast.Name) and comp_generator_of(e) is None and depth > 0:
            defs = rd.defs_reaching(e)
            for d in defs:
                v = assigned_value(d, e.id)
                if v is not None and isinstance(v, (ast.Attribute, ast.Name)) and is_table(v, depth - 1):
                    return True
            ids = {id(d) for d in defs}
            for st, nm in fwd:
                if nm == e.id and ids & {id(d) for d in rd.defs_reaching_at(st, nm)}:
                    return True
        return False
    return is_table


def r1_namespaces(ctx, rid):
    taints, summ, src, targets, funcs = module_taint(ctx)
    get_nodes = ctx.repo.get_func(REL, f"{CLS}.get_nodes")
    get_idx = ctx.repo.get_func(REL, f"{CLS}._get_var_idx")
    n_sources = 0
    source_sites = []
    n_by_kind = {"get_nodes": 0, "_get_var_idx": 0, "index table": 0}
    for f in funcs:
        T = taints[f]
        is_table = _index_table_aliases(ctx, f)
        sinks = []          # (node, kind, [exprs])
        for n in ordered(walk_shallow(f.node)):
            if isinstance(n, ast.Call):
                ts = targets(f, n)
                if src in ts:
                    n_sources += 1
                    source_sites.append(f"{f.qualname}: {norm(n)}")
                if get_nodes in ts:
                    sinks.append((n, "get_nodes", list(n.args) + [k.value for k in n.keywords]))
                elif get_idx in ts:
                    sinks.append((n, "_get_var_idx", list(n.args) + [k.value for k in n.keywords]))
            elif isinstance(n, ast.Subscript) and is_table(n.value):
                sinks.append((n, "index table", [n.slice]))
        seen: Dict[str, int] = {}
        local_sources = [norm(c) for c in ordered(walk_shallow(f.node)) if isinstance(c, ast.Call) and src in targets(f, c)]
        for node, kind, exprs in sinks:
            n_by_kind[kind] += 1
            txt = norm(node)
            seen[txt] = seen.get(txt, 0) + 1
            label = f"sink {kind}: {txt}" + (f" #{seen[txt]}" if seen[txt] > 1 else "")
            bad = [e for e in exprs if S in T.flags(e)]
            if bad:
                what = {"get_nodes": "get_nodes resolves *frontend* node paths (and operator/variable names)",
                        "_get_var_idx": "_get_var_idx looks the path up in the frontend index table _vectorization_indices",
                        "index table": "_vectorization_indices is keyed by *frontend* paths"}[kind]
                ctx.violation(rid, f, node,
                              f"`{norm(bad[0])}` derives from a result of _relabel_var (a backend label after vectorisation) but {what}: "
                              f"for a node that vectorisation merged into another node's vector the look-up addresses the group (first "
                              f"member) or misses, so a path denotes a different variable here than elsewhere",
                              {"tainted": [norm(b) for b in bad], "relabel_calls_in_function": local_sources}, label=label)
            else:
                ctx.ok(rid, f, node, f"no value derived from _relabel_var reaches this {kind} sink (frontend name-space)",
                       {"arguments": [norm(e) for e in exprs]}, label=label)
    ctx.notes.append(f"{rid}: {n_sources} call sites of _relabel_var (sources); sinks by kind {n_by_kind}; "
                     f"functions with a tainted return: {sorted(f.qualname for f, s in summ.items() if s.flat() and f != src)}")
    # Vacuity guards.  Exact counts would make the rule fail when duplicated code is merged into a helper, so the guard is: every
    # call in the module that is *spelt* like a source / sink call was resolved to the source / sink by the call graph (nothing
    # was missed because a receiver could not be typed), and each kind still occurs a handful of times.
    spelt = {"_relabel_var": 0, "get_nodes": 0, "_get_var_idx": 0}
    for f in funcs:
        for n in walk_shallow(f.node):
            if isinstance(n, ast.Call) and call_name(n) in spelt:
                spelt[call_name(n)] += 1
    resolved_counts = {"_relabel_var": n_sources, "get_nodes": n_by_kind["get_nodes"], "_get_var_idx": n_by_kind["_get_var_idx"]}
    for nm, cnt in spelt.items():
        ctx.require(resolved_counts[nm] >= cnt, f"{rid}: {cnt} calls named {nm} in {REL} but only {resolved_counts[nm]} resolved to "
                                               f"{CLS}.{nm} (a source/sink would be missed)")
    ctx.require(n_sources >= 4, f"{rid}: only {n_sources} call sites of _relabel_var found in {REL} (9 on the pinned tree)")
    ctx.require(n_by_kind["get_nodes"] >= 6 and n_by_kind["_get_var_idx"] >= 2 and n_by_kind["index table"] >= 3,
                f"{rid}: sinks went missing ({n_by_kind}; on the pinned tree: 12 get_nodes calls, 4 _get_var_idx calls, 6 index-table subscripts)")


# --------------------------------------------------------------------------------------------
# R2 — labels and data are appended in lock-step
# --------------------------------------------------------------------------------------------

MUTATORS = {"append", "extend", "insert", "pop", "remove", "clear", "sort", "reverse"}


class LoopDeps:
    """Which loop bindings (for statements / comprehension generators inside `loop`, including `loop`) determine an expression."""

    def __init__(self, ctx, f, loop):
        self.ctx, self.f, self.loop = ctx, f, loop
        self.rd = ctx.rd(f)
        self._memo = {}
        self._busy = set()

    def inside(self, d) -> bool:
        return isinstance(d, ast.AST) and (d is self.loop or contains(self.loop, d))

    def deps(self, e) -> FrozenSet:
        out = set()
        for n in ast.walk(e):
            if isinstance(n, ast.Name) and isinstance(n.ctx, ast.Load):
                out |= self.name(n)
        return frozenset(out)

    def name(self, n):
        g = comp_generator_of(n)
        if g == "lambda":
            return NONE
        if g is not None:
            return self.bound(g.target, g.iter, g, n.id) if self.inside(g) else NONE
        out = set()
        for d in self.rd.defs_reaching(n):
            if self.inside(d):
                out |= self.definition(d, n.id)
        return out

    def definition(self, d, name):
        key = (id(d), name)
        if key in self._memo:
            return self._memo[key]
        if key in self._busy:
            return NONE
        self._busy.add(key)
        try:
            if isinstance(d, (ast.For, ast.AsyncFor)):
                r = self.bound(d.target, d.iter, d, name)
            elif isinstance(d, ast.Assign):
                v = assigned_value(d, name)
                r = self.deps(v if v is not None else d.value)
            elif isinstance(d, ast.AnnAssign) and d.value is not None:
                r = self.deps(d.value)
            elif isinstance(d, ast.AugAssign):
                r = set(self.deps(d.value))
                for d2 in self.rd.defs_reaching_at(d, name):
                    if self.inside(d2):
                        r |= self.definition(d2, name)
            else:
                r = NONE
            r = frozenset(r)
        finally:
            self._busy.discard(key)
        self._memo[key] = r
        return r

    def bound(self, target, it, node, name):
        atom = node
        if isinstance(it, ast.Call) and isinstance(it.func, ast.Name) and it.func.id == "range":
            return frozenset({atom})
        return frozenset({atom}) | self.deps(it)

    @staticmethod
    def show(atoms) -> List[str]:
        out = []
        for a in ordered(atoms):
            out.append(norm(a) if isinstance(a, ast.stmt) else f"for {ast.unparse(a.target)} in {ast.unparse(a.iter)}")
        return out


def _append_stmt(st, list_name):
    return isinstance(st, ast.Expr) and isinstance(st.value, ast.Call) and isinstance(st.value.func, ast.Attribute) \
        and st.value.func.attr == "append" and isinstance(st.value.func.value, ast.Name) and st.value.func.value.id == list_name \
        and len(st.value.args) == 1


def _r2_pair_list(ctx, rid, f, frame, kw, P: str):
    """Labels and series are collected as tuples in ONE list `P` and separated afterwards (`[a for a, b in P]`, `zip(*P)`): a label
    cannot lose its series, what remains to be shown is that both components of every tuple are selected by the same loop bindings."""
    rd = ctx.rd(f)

    def projections(e, depth=3) -> Set[int]:
        out = set()
        for n in ast.walk(e):
            if isinstance(n, (ast.ListComp, ast.GeneratorExp)) and len(n.generators) == 1 and isinstance(n.generators[0].iter, ast.Name) \
                    and n.generators[0].iter.id == P:
                g = n.generators[0]
                if g.ifs or not isinstance(g.target, ast.Tuple) or not all(isinstance(x, ast.Name) for x in g.target.elts):
                    raise AnalysisError(f"{rid}: `{norm(n)}` does not take the pairs of `{P}` apart by position (unrecognised form)")
                if isinstance(n.elt, ast.Name) and position_in_target(g.target, n.elt.id) is not None:
                    out.add((position_in_target(g.target, n.elt.id), len(g.target.elts)))
                elif isinstance(n.elt, ast.Subscript) and isinstance(n.elt.slice, ast.Constant):
                    raise AnalysisError(f"{rid}: `{norm(n)}` (unrecognised form)")
            elif isinstance(n, ast.Name) and isinstance(n.ctx, ast.Load) and n.id != P and comp_generator_of(n) is None and depth > 0:
                for d in rd.defs_reaching(n):
                    if isinstance(d, ast.Assign) and len(d.targets) == 1 and isinstance(d.targets[0], (ast.Tuple, ast.List)) \
                            and isinstance(d.value, ast.Call) and call_name(d.value) == "zip" and len(d.value.args) == 1 \
                            and isinstance(d.value.args[0], ast.Starred) and isinstance(d.value.args[0].value, ast.Name) \
                            and d.value.args[0].value.id == P:
                        pos = position_in_target(d.targets[0], n.id)
                        if pos is not None:
                            out.add((pos, len(d.targets[0].elts)))
                        continue
                    v = assigned_value(d, n.id)
                    if v is not None:
                        out |= projections(v, depth - 1)
        return out
    lp, dp = projections(kw["columns"]), projections(kw["data"])
    ctx.require(len(lp) == 1 and len(dp) == 1 and next(iter(lp))[0] != next(iter(dp))[0] and next(iter(lp))[1] == next(iter(dp))[1],
                f"{rid}: cannot tell which component of the tuples in `{P}` becomes the label and which the data of {norm(frame)} "
                f"(labels {sorted(lp)}, data {sorted(dp)})")
    (li, arity), (di, _) = next(iter(lp)), next(iter(dp))
    ctx.ok(rid, f, frame, f"the frame's columns are component {li} and its data component {di} of the tuples collected in list `{P}`",
           label="frame assembly", nontrivial=False)
    # every way the list grows
    elements = []        # (statement, tuple expression)
    for n in ordered(walk_shallow(f.node)):
        if isinstance(n, ast.AugAssign) and isinstance(n.target, ast.Name) and n.target.id == P:
            raise AnalysisError(f"{rid}: `{norm(n)}` grows the pair list in an unrecognised way")
        if not (isinstance(n, ast.Call) and isinstance(n.func, ast.Attribute) and isinstance(n.func.value, ast.Name) and n.func.value.id == P
                and n.func.attr in MUTATORS):
            continue
        st = n
        while not isinstance(st, ast.stmt):
            st = parent(st)
        arg = n.args[0] if len(n.args) == 1 and not n.keywords else None
        tup = None
        if n.func.attr == "append":
            tup = arg
        elif n.func.attr == "extend" and isinstance(arg, (ast.GeneratorExp, ast.ListComp)) and not any(g.ifs for g in arg.generators):
            tup = arg.elt
        if not (isinstance(st, ast.Expr) and st.value is n and isinstance(tup, ast.Tuple) and len(tup.elts) == arity
                and not any(isinstance(x, ast.Starred) for x in tup.elts)):
            raise AnalysisError(f"{rid}: `{norm(n)}` does not add ({arity})-tuples to the pair list in a recognised way")
        elements.append((st, tup))
    ctx.require(elements, f"{rid}: nothing is ever added to `{P}`")
    loops = [a for a in ancestors(elements[0][0]) if isinstance(a, (ast.For, ast.While))]
    ctx.require(loops, f"{rid}: the pairs are not collected inside a loop")
    loop = loops[-1]
    for st, _ in elements:
        if not contains(loop, st):
            raise AnalysisError(f"{rid}: `{norm(st)}` lies outside the column-building loop `{norm(loop)}` (unrecognised form)")
    dep = LoopDeps(ctx, f, loop)
    for st, tup in elements:
        label = "label " + norm(st) + " @" + " > ".join(norm(a) for a in reversed(
            [a for a in ancestors(st) if isinstance(a, (ast.For, ast.While, ast.If)) and (a is loop or contains(loop, a))]))
        le, de = tup.elts[li], tup.elts[di]
        ld, dd = dep.deps(le), dep.deps(de)
        facts = {"label": norm(le), "data": norm(de), "label_determined_by": LoopDeps.show(ld), "data_determined_by": LoopDeps.show(dd)}
        if ld == dd:
            ctx.ok(rid, f, st, "label and data series are stored as one pair and are determined by the same loop bindings", facts, label=label)
        else:
            only_l, only_d = LoopDeps.show(ld - dd), LoopDeps.show(dd - ld)
            ctx.violation(rid, f, st, f"label `{facts['label']}` and data `{facts['data']}` are not selected by the same key/unit "
                                      f"(label only: {only_l}; data only: {only_d}): the column would carry another variable's or unit's "
                                      f"trajectory than its label names", facts, label=label)


def r2_label_data_lockstep(ctx, rid):
    run = ctx.repo.get_func(REL, f"{CLS}.run")

    def frame_calls(fn):
        return [c for c in walk_shallow(fn.node) if isinstance(c, ast.Call) and call_name(c) == "DataFrame"]
    # the frame is assembled in run() itself or in a helper that run() delegates to
    hosts = hosts_of(ctx, run, frame_calls)
    ctx.require(len(hosts) == 1, f"{rid}: expected one function in or below CircuitTemplate.run that builds the DataFrame, found "
                                 f"{sorted(h[0].qualname for h in hosts)}")
    f = hosts[0][0]
    rd = ctx.rd(f)
    frames = frame_calls(f)
    ctx.require(len(frames) == 1, f"{rid}: expected one DataFrame(...) call in {f.qualname}, found {len(frames)}")
    frame = frames[0]
    kw = {k.arg: k.value for k in frame.keywords}
    if "data" not in kw and frame.args and not isinstance(frame.args[0], ast.Starred):
        kw["data"] = frame.args[0]
    ctx.require("columns" in kw and "data" in kw, f"{rid}: DataFrame call without data=/columns= keywords: {norm(frame)}")
    appended = {n.func.value.id for n in walk_shallow(f.node) if isinstance(n, ast.Call) and isinstance(n.func, ast.Attribute)
                and n.func.attr in ("append", "extend") and isinstance(n.func.value, ast.Name)}

    def roots(e, depth=3) -> Set[str]:
        out = set()
        for n in ast.walk(e):
            if isinstance(n, ast.Name) and isinstance(n.ctx, ast.Load):
                if n.id in appended:
                    out.add(n.id)
                elif depth > 0:
                    for d in rd.defs_reaching(n):
                        v = assigned_value(d, n.id)
                        if v is not None:
                            out |= roots(v, depth - 1)
        return out
    lroots, droots = roots(kw["columns"]), roots(kw["data"])
    if len(lroots) == 1 and lroots == droots:
        # one list of (label, series) pairs that is taken apart for the frame
        return _r2_pair_list(ctx, rid, f, frame, kw, next(iter(lroots)))
    ctx.require(len(lroots) == 1 and len(droots) == 1 and lroots != droots,
                f"{rid}: cannot identify the label list / data list behind {norm(frame)} (labels {sorted(lroots)}, data {sorted(droots)})")
    L, D = next(iter(lroots)), next(iter(droots))
    ctx.ok(rid, f, frame, f"the frame's columns come from list `{L}` and its data from list `{D}`", label="frame assembly", nontrivial=False)

    stmts = [s for s in walk_shallow(f.node) if isinstance(s, ast.stmt)]
    l_apps = ordered([s for s in stmts if _append_stmt(s, L)])
    d_apps = ordered([s for s in stmts if _append_stmt(s, D)])
    ctx.require(l_apps and d_apps, f"{rid}: no appends to `{L}` / `{D}` found")
    for n in walk_shallow(f.node):
        if isinstance(n, ast.Call) and isinstance(n.func, ast.Attribute) and isinstance(n.func.value, ast.Name) \
                and n.func.value.id in (L, D) and n.func.attr in MUTATORS and not (n.func.attr == "append" and len(n.args) == 1):
            raise AnalysisError(f"{rid}: `{norm(n)}` mutates a column list in an unrecognised way")
    loops = [a for a in ancestors(l_apps[0]) if isinstance(a, (ast.For, ast.While))]
    ctx.require(loops, f"{rid}: the label appends are not inside a loop")
    loop = loops[-1]
    for s in l_apps + d_apps:
        if not contains(loop, s):
            raise AnalysisError(f"{rid}: `{norm(s)}` lies outside the column-building loop `{norm(loop)}` (unrecognised form)")
    for n in ast.walk(loop):
        if isinstance(n, (ast.Break, ast.Continue, ast.Return, ast.Try)):
            raise AnalysisError(f"{rid}: column-building loop contains `{type(n).__name__}` (unrecognised form)")

    cfg = CFG(loop)
    paths = [p for p in enumerate_paths(cfg) if p[-1] is cfg.EXIT]
    ctx.require(paths, f"{rid}: no path through the column-building loop body")
    partner: Dict[int, Set[int]] = {}
    by_id = {id(s): s for s in l_apps + d_apps}
    unpaired: Dict[int, str] = {}
    on_path: Set[int] = set()
    for p in paths:
        ls = [s for s in p if id(s) in by_id and _append_stmt(s, L)]
        ds = [s for s in p if id(s) in by_id and _append_stmt(s, D)]
        on_path |= {id(s) for s in ls + ds}
        m = min(len(ls), len(ds))
        for a, b in zip(ls, ds):
            partner.setdefault(id(a), set()).add(id(b))
            partner.setdefault(id(b), set()).add(id(a))
        for s in ls[m:] + ds[m:]:
            unpaired.setdefault(id(s), cfg.path_str(p))
    for s in l_apps + d_apps:
        if id(s) not in on_path:
            raise AnalysisError(f"{rid}: `{norm(s)}` is on no enumerated path of the loop body")
    dep = LoopDeps(ctx, f, loop)

    def loops_of(s):
        return [id(a) for a in ancestors(s) if isinstance(a, (ast.For, ast.While)) and (a is loop or contains(loop, a))]
    for s in l_apps + d_apps:
        is_label = _append_stmt(s, L)
        label = ("label " if is_label else "data ") + norm(s) + " @" + " > ".join(norm(a) for a in reversed(
            [a for a in ancestors(s) if isinstance(a, (ast.For, ast.While, ast.If)) and (a is loop or contains(loop, a))]))
        if id(s) in unpaired:
            ctx.violation(rid, f, s, f"on path {unpaired[id(s)]} of the column-building loop this "
                                     f"{'label is appended without a data series' if is_label else 'data series is appended without a label'}: "
                                     f"every later column of the DataFrame carries the trajectory of a different variable than its label names",
                          {"path": unpaired[id(s)]}, label=label)
            continue
        if not is_label:
            continue
        ps = partner.get(id(s), set())
        if len(ps) != 1:
            ctx.violation(rid, f, s, "this label append is paired with different data appends on different paths (labels and data drift apart)",
                          {"partners": [norm(by_id[x]) for x in ps]}, label=label)
            continue
        d = by_id[next(iter(ps))]
        if len(partner.get(id(d), ())) != 1:
            ctx.violation(rid, f, s, "the data append paired with this label is paired with another label on another path",
                          {"data": norm(d)}, label=label)
            continue
        if loops_of(s) != loops_of(d):
            ctx.violation(rid, f, s, f"label append and its data append `{norm(d)}` do not sit in the same loops: they are executed a different "
                                     f"number of times, so labels and series get out of step", {"data": norm(d)}, label=label)
            continue
        ld, dd = dep.deps(s.value.args[0]), dep.deps(d.value.args[0])
        facts = {"label": norm(s.value.args[0]), "data": norm(d.value.args[0]), "label_determined_by": LoopDeps.show(ld),
                 "data_determined_by": LoopDeps.show(dd)}
        if ld == dd:
            ctx.ok(rid, f, s, "label and data series are appended in lock-step and are determined by the same loop bindings", facts, label=label)
        else:
            only_l, only_d = LoopDeps.show(ld - dd), LoopDeps.show(dd - ld)
            ctx.violation(rid, f, s, f"label `{facts['label']}` and data `{facts['data']}` are not selected by the same key/unit "
                                     f"(label only: {only_l}; data only: {only_d}): the column would carry another variable's or unit's "
                                     f"trajectory than its label names", facts, label=label)


# --------------------------------------------------------------------------------------------
# R3 — index, backend key and dictionary key derive from the same path
# --------------------------------------------------------------------------------------------

def _unchain(t):
    keys = []
    while isinstance(t, ast.Subscript):
        keys.append(t.slice)
        t = t.value
    return (t.id if isinstance(t, ast.Name) else None), list(reversed(keys))


def _node_query(ctx, f, T: ast.Name, rid: str):
    """The get_nodes(...) call whose result the local `T` of function `f` holds: (call, op_is, var_is, text) where op_is / var_is
    decide whether an expression of `f` is the operator / variable name that get_nodes was asked to resolve.  The call may sit in
    `f` (`T = self.get_nodes(n, var_identifier=(op, var))`) or in a helper that returns the node list together with op and var
    (`T, op, var = self._helper(path)`).  None when T is something else; AnalysisError for a helper of an unrecognised form."""
    def var_identifier(fn, call):
        vid = {k.arg: k.value for k in call.keywords}.get("var_identifier") or (call.args[1] if len(call.args) > 1 else None)
        vid = resolve_local(ctx, fn, vid) if vid is not None else None
        if not (isinstance(vid, ast.Tuple) and len(vid.elts) == 2):
            raise AnalysisError(f"{rid}: `{norm(call)}` has no (op, var) var_identifier (unrecognised form)")
        return vid
    tv = resolve_local(ctx, f, T)
    if isinstance(tv, ast.Call) and call_name(tv) == "get_nodes":
        vid = var_identifier(f, tv)
        def same_as(want):
            return lambda e: same_value(ctx, f, e, want) or same_value(ctx, f, resolve_local(ctx, f, e), resolve_local(ctx, f, want))
        return tv, same_as(vid.elts[0]), same_as(vid.elts[1]), f"{norm(vid.elts[0])}/{norm(vid.elts[1])}"
    if not isinstance(tv, ast.Name) or comp_generator_of(tv) is not None:
        return None
    defs = ctx.rd(f).defs_reaching(tv)
    if len(defs) != 1 or not isinstance(defs[0], ast.Assign) or not isinstance(defs[0].value, ast.Call) or len(defs[0].targets) != 1:
        return None
    d, target = defs[0], defs[0].targets[0]
    pos = position_in_target(target, tv.id)
    if pos is None or any(isinstance(x, ast.Starred) for x in target.elts):
        return None
    targets, how = ctx.cg.resolve_call(f, d.value)
    targets = [t for t in targets if getattr(t.module, "rel", None) == f.module.rel]
    if str(how).startswith("unresolved") or how == "external" or not targets:
        return None
    if len(targets) != 1:
        raise AnalysisError(f"{rid}: `{norm(d)}` may call {sorted(t.qualname for t in targets)} (unrecognised form)")
    hf = targets[0]
    rets = [n for n in walk_shallow(hf.node) if isinstance(n, ast.Return)]
    if len(rets) != 1 or not isinstance(rets[0].value, ast.Tuple) or len(rets[0].value.elts) != len(target.elts) \
            or any(isinstance(x, ast.Starred) for x in rets[0].value.elts):
        raise AnalysisError(f"{rid}: {hf.qualname} does not return one tuple that matches `{norm(target)}` (unrecognised form)")
    relts = rets[0].value.elts
    gn = resolve_local(ctx, hf, relts[pos])
    if not (isinstance(gn, ast.Call) and call_name(gn) == "get_nodes"):
        return None
    vid = var_identifier(hf, gn)

    def part_is(want):
        positions = [i for i, r in enumerate(relts) if i != pos and same_value(ctx, hf, r, want)]

        def test(e):
            if not isinstance(e, ast.Name) or comp_generator_of(e) is not None:
                return False
            ds = ctx.rd(f).defs_reaching(e)
            return len(ds) == 1 and ds[0] is d and position_in_target(target, e.id) in positions
        return test
    return gn, part_is(vid.elts[0]), part_is(vid.elts[1]), f"{norm(vid.elts[0])}/{norm(vid.elts[1])} (in {hf.qualname})"


def _stable_string(ctx, f, name: ast.Name):
    if comp_generator_of(name) is not None:
        return None
    defs = ctx.rd(f).defs_reaching(name)
    if len(defs) != 1 or isinstance(defs[0], ast.arguments):
        return None
    v = assigned_value(defs[0], name.id)
    if isinstance(v, ast.JoinedStr) or (isinstance(v, ast.Constant) and isinstance(v.value, str)):
        from engine.util import alias_is_stable
        if alias_is_stable(ctx, f, defs[0], name, v):
            return v
    return None


def _as_path_fstring(ctx, f, e: ast.AST, depth: int = 4) -> ast.AST:
    """A path expression as an f-string whose holes are the ORIGINAL nodes: f-strings with holes that are locals bound once to
    (parts of) strings are flattened (`f"{t}{suffix}"`, suffix = f"/{op}/{var}"), `"/".join((a, b, c))` becomes `f"{a}/{b}/{c}"`.
    Anything else is returned unchanged."""
    if isinstance(e, ast.Call) and isinstance(e.func, ast.Attribute) and e.func.attr == "join" and isinstance(e.func.value, ast.Constant) \
            and isinstance(e.func.value.value, str) and len(e.args) == 1 and isinstance(e.args[0], (ast.Tuple, ast.List)) \
            and not any(isinstance(x, ast.Starred) for x in e.args[0].elts):
        values = []
        for i, x in enumerate(e.args[0].elts):
            if i:
                values.append(ast.Constant(value=e.func.value.value))
            if isinstance(x, ast.Constant) and isinstance(x.value, str):
                values.append(x)
            else:
                values.append(ast.FormattedValue(value=x, conversion=-1, format_spec=None))
        new = ast.JoinedStr(values=values)
        ast.copy_location(new, e)
        new._parent = getattr(e, "_parent", None)
        return _as_path_fstring(ctx, f, new, depth)
    if not isinstance(e, ast.JoinedStr):
        return e
    values, changed = [], False
    for part in e.values:
        if isinstance(part, ast.FormattedValue) and part.conversion == -1 and part.format_spec is None and isinstance(part.value, ast.Name) \
                and depth > 0:
            v = _stable_string(ctx, f, part.value)
            if v is not None:
                inner = _as_path_fstring(ctx, f, v if isinstance(v, ast.JoinedStr) else ast.JoinedStr(values=[v]), depth - 1)
                values.extend(inner.values)
                changed = True
                continue
        values.append(part)
    # merge adjacent constants so that the template text is canonical
    merged = []
    for v in values:
        if isinstance(v, ast.Constant) and merged and isinstance(merged[-1], ast.Constant):
            merged[-1] = ast.Constant(value=str(merged[-1].value) + str(v.value))
        else:
            merged.append(v)
    if not changed and len(merged) == len(e.values):
        return e
    new = ast.JoinedStr(values=merged)
    ast.copy_location(new, e)
    new._parent = getattr(e, "_parent", None)
    return new


def _unmemoised(ctx, f, call: ast.Call, rid: str):
    """`call` invokes a function nested in f that memoises the value of one expression under its only parameter in a dict of the
    enclosing function (`if p not in M: M[p] = E` ... `return M[p]`): (E, parameter name, argument of the call); None otherwise."""
    g = f.nested.get(call.func.id)
    if g is None or len(call.args) + len(call.keywords) != 1:
        return None
    params = [a.arg for a in g.node.args.posonlyargs + g.node.args.args + g.node.args.kwonlyargs]
    if len(params) != 1 or g.node.args.vararg or g.node.args.kwarg:
        return None
    prm = params[0]
    arg = call.args[0] if call.args else call.keywords[0].value
    body = [st for st in g.node.body if not (isinstance(st, ast.Expr) and isinstance(st.value, ast.Constant))]

    def slot(e):          # M[p] -> M
        if isinstance(e, ast.Subscript) and isinstance(e.value, ast.Name) and isinstance(e.slice, ast.Name) and e.slice.id == prm:
            return e.value.id
        return None
    if len(body) != 2 or not isinstance(body[0], ast.If) or body[0].orelse or len(body[0].body) != 1 or not isinstance(body[1], ast.Return):
        return None
    t, st, ret = body[0].test, body[0].body[0], body[1]
    memo = slot(ret.value) if ret.value is not None else None
    if memo is None or not (isinstance(t, ast.Compare) and len(t.ops) == 1 and isinstance(t.ops[0], ast.NotIn) and isinstance(t.left, ast.Name)
                            and t.left.id == prm and isinstance(t.comparators[0], ast.Name) and t.comparators[0].id == memo):
        return None
    if not (isinstance(st, ast.Assign) and len(st.targets) == 1 and slot(st.targets[0]) == memo):
        return None
    # the memo is a dict of the enclosing function that nothing else fills, and the function does not re-bind what E reads
    defs = [n for n in ast.walk(f.node) if isinstance(n, ast.Name) and n.id == memo and isinstance(n.ctx, (ast.Store, ast.Del))]
    other = [n for n in ast.walk(f.node) if isinstance(n, ast.Subscript) and isinstance(n.value, ast.Name) and n.value.id == memo
             and isinstance(n.ctx, (ast.Store, ast.Del)) and n is not st.targets[0]]
    mut = [n for n in ast.walk(f.node) if isinstance(n, ast.Call) and isinstance(n.func, ast.Attribute) and isinstance(n.func.value, ast.Name)
           and n.func.value.id == memo and n.func.attr in ("update", "setdefault", "pop", "clear", "popitem")]
    if len(defs) != 1 or other or mut:
        raise AnalysisError(f"{rid}: the memo `{memo}` of `{call.func.id}` is filled in more than one place (unrecognised form)")
    dst = defs[0]
    while not isinstance(dst, ast.stmt):
        dst = parent(dst)
    if not (isinstance(dst, ast.Assign) and ((isinstance(dst.value, ast.Dict) and not dst.value.keys)
                                             or (isinstance(dst.value, ast.Call) and call_name(dst.value) == "dict" and not dst.value.args))):
        raise AnalysisError(f"{rid}: the memo `{memo}` of `{call.func.id}` is not a fresh dict of this call (unrecognised form)")
    free = {n.id for n in ast.walk(st.value) if isinstance(n, ast.Name)} - {prm}
    for nm in free:
        stores = [n for n in ast.walk(f.node) if isinstance(n, ast.Name) and n.id == nm and isinstance(n.ctx, (ast.Store, ast.Del))]
        if len(stores) > 1:
            raise AnalysisError(f"{rid}: `{nm}`, read by the memoised expression `{norm(st.value)}`, is re-bound (the memo key would miss it)")
    return st.value, prm, arg


def r3_same_path(ctx, rid):
    f0 = ctx.repo.get_func(REL, f"{CLS}.get_variable_positions")
    # private helpers (node look-up, relabel + index look-up returning a pair, ...) are spliced in; the anchors stay calls
    f = inlined(ctx, f0, keep=("_relabel_var", "_get_var_idx", "get_nodes"))
    rd = ctx.rd(f)
    rets = [n for n in walk_shallow(f.node) if isinstance(n, ast.Return)]
    ctx.require(rets and all(isinstance(r.value, ast.Tuple) and len(r.value.elts) == 2 and all(isinstance(e, ast.Name) for e in r.value.elts)
                             for r in rets) and len({tuple(e.id for e in r.value.elts) for r in rets}) == 1,
                f"{rid}: get_variable_positions no longer returns (index map, backend-variable map) as the same two names everywhere")
    idx_map, var_map = (e.id for e in rets[0].value.elts)
    for nm in (idx_map, var_map):
        ds = {id(d) for r in rets for e in r.value.elts if e.id == nm for d in rd.defs_reaching(e)}
        ctx.require(len(ds) == 1, f"{rid}: `{nm}` is bound more than once in get_variable_positions (unrecognised form)")
    def empty_dict(v):
        return (isinstance(v, ast.Dict) and not v.keys) or (isinstance(v, ast.Call) and call_name(v) == "dict" and not v.args and not v.keywords)

    def stores(st):
        """[(subscript target, value)] of an assignment statement (chained targets share the value)."""
        if isinstance(st, ast.Assign):
            out = []
            for t in st.targets:
                if isinstance(t, ast.Subscript):
                    out.append((t, st.value))
                elif isinstance(t, (ast.Tuple, ast.List)) and any(isinstance(x, ast.Subscript) for x in t.elts):
                    # `a[k], b[k] = x, y` / `= pair_call(...)`
                    v = resolve_local(ctx, f, st.value) if isinstance(st.value, ast.Name) else st.value
                    if isinstance(v, (ast.Tuple, ast.List)) and len(v.elts) == len(t.elts) \
                            and not any(isinstance(x, ast.Starred) for x in list(v.elts) + list(t.elts)):
                        out += [(x, y) for x, y in zip(t.elts, v.elts) if isinstance(x, ast.Subscript)]
                    else:
                        raise AnalysisError(f"{rid}: `{norm(st)}` stores the parts of a value that is not a literal pair (unrecognised form)")
            return out
        return []

    # sub-maps: `<index map>[k] = <local>` where the local is a fresh dict (`m = {}` / `<index map>[k] = m = {}`); stores into the
    # local are stores into `<index map>[k]`
    sub_maps: Dict[str, Dict[int, list]] = {}         # local name -> {id(defining statement): key prefix}
    for st in ordered(walk_shallow(f.node)):
        for t, v in stores(st):
            root, keys = _unchain(t)
            if root != idx_map:
                continue
            names = [x for x in st.targets if isinstance(x, ast.Name)]
            if names and empty_dict(v):
                for x in names:
                    sub_maps.setdefault(x.id, {})[id(st)] = keys
            elif isinstance(v, ast.Name) and comp_generator_of(v) is None:
                defs = rd.defs_reaching(v)
                if len(defs) == 1 and empty_dict(assigned_value(defs[0], v.id)):
                    sub_maps.setdefault(v.id, {})[id(defs[0])] = keys
    # a local may also stand for the index map itself on another branch (`m = <index map>`): prefix []; or for a sub-map that
    # is read back (`m = <index map>[k]`)
    for st in ordered(walk_shallow(f.node)):
        if isinstance(st, ast.Assign) and len(st.targets) == 1 and isinstance(st.targets[0], ast.Name) and st.targets[0].id != idx_map:
            if isinstance(st.value, ast.Name) and st.value.id == idx_map:
                sub_maps.setdefault(st.targets[0].id, {})[id(st)] = []
            elif isinstance(st.value, ast.Subscript) and isinstance(st.value.ctx, ast.Load) and not isinstance(st.value.slice, ast.Slice):
                root_, keys_ = _unchain(st.value)
                if root_ == idx_map:
                    sub_maps.setdefault(st.targets[0].id, {})[id(st)] = keys_
    entries, var_stores = [], []
    for st in ordered(walk_shallow(f.node)):
        for t, v in stores(st):
            root, keys = _unchain(t)
            if root in sub_maps and root != idx_map:
                base = t
                while isinstance(base, ast.Subscript):
                    base = base.value
                reaching = [id(d) for d in rd.defs_reaching(base)]
                if not reaching or any(d not in sub_maps[root] for d in reaching):
                    raise AnalysisError(f"{rid}: `{norm(st)}` stores into `{root}`, which is not only a (sub-)map of `{idx_map}` here "
                                        f"(unrecognised form)")
                prefixes = [sub_maps[root][d] for d in reaching]
                root, keys = idx_map, list(max(prefixes, key=len)) + keys
            if root == idx_map:
                if empty_dict(v) or (isinstance(v, ast.Name) and v.id in sub_maps):
                    continue
                vr = resolve_local(ctx, f, v)
                if isinstance(vr, ast.Call) and call_name(vr) == "_get_var_idx" and (vr.args or vr.keywords):
                    entries.append((st, keys, vr))
                else:
                    raise AnalysisError(f"{rid}: `{norm(st)}` writes the index map with something else than _get_var_idx(...) (unrecognised form)")
            elif root == var_map:
                var_stores.append((st, keys, v))
    ctx.require(entries, f"{rid}: no `{idx_map}[...] = self._get_var_idx(...)` entry found")
    used = set()
    seen: Dict[str, int] = {}
    for st, keys, call in entries:
        blk = block_of(st)
        partners = [(vs, vk, vv) for vs, vk, vv in var_stores if block_of(vs) is blk]
        txt = norm(st)
        seen[txt] = seen.get(txt, 0) + 1
        tag = txt + (f" #{seen[txt]}" if seen[txt] > 1 else "")
        if not partners:
            ctx.violation(rid, f0, st, f"an index is stored in `{idx_map}` but no backend variable is stored in `{var_map}` in the same branch: "
                                      f"the result column has no variable to be read from", label=f"entry {tag}: pairing")
            continue
        if len(partners) > 1:
            raise AnalysisError(f"{rid}: several stores into `{var_map}` next to `{txt}` (unrecognised form)")
        vs, vkeys, vvalue = partners[0]
        used.add(id(vs))
        A = call.args[0] if call.args else call.keywords[0].value
        B = resolve_local(ctx, f, vvalue)
        memo_param = memo_arg = None
        if isinstance(B, ast.Call) and isinstance(B.func, ast.Name) and B.func.id in f.nested:
            # a local function that memoises a pure call under its complete argument: look at the memoised call
            um = _unmemoised(ctx, f, B, rid)
            if um is not None:
                B, memo_param, memo_arg = um
        if not (isinstance(B, ast.Call) and call_name(B) == "_relabel_var" and len(B.args) + len(B.keywords) == 2):
            raise AnalysisError(f"{rid}: `{norm(vs)}`: the backend key is not a `_relabel_var(path, map)` result (unrecognised form)")
        bargs = list(B.args) + [k.value for k in sorted(B.keywords, key=lambda k: 0 if k.arg == "var" else 1)]
        R, M = bargs[0], bargs[1]
        if memo_param is not None:
            if not (isinstance(R, ast.Name) and R.id == memo_param):
                raise AnalysisError(f"{rid}: the memoised call `{norm(B)}` does not relabel its own argument (unrecognised form)")
            R = memo_arg
        Ar, Rr = resolve_local(ctx, f, A), resolve_local(ctx, f, R)
        facts = {"index_of": norm(A), "relabelled": norm(R), "index_map_key": [norm(k) for k in keys], "var_map_key": [norm(k) for k in vkeys]}
        # (i) same path, proper table
        map_ok = isinstance(M, ast.Attribute) and M.attr == "_vectorization_labels"
        if not map_ok:
            Mr = resolve_local(ctx, f, M)
            map_ok = isinstance(Mr, ast.Attribute) and Mr.attr == "_vectorization_labels"
        def same_path(x, y) -> bool:
            """both are path strings with the same text parts and, hole by hole, the same values (whatever spelling built them)"""
            px, py = _as_path_fstring(ctx, f, x), _as_path_fstring(ctx, f, y)
            if not (isinstance(px, ast.JoinedStr) and isinstance(py, ast.JoinedStr)) or len(px.values) != len(py.values):
                return False
            for u, v in zip(px.values, py.values):
                if isinstance(u, ast.Constant) and isinstance(v, ast.Constant):
                    if u.value != v.value:
                        return False
                elif isinstance(u, ast.FormattedValue) and isinstance(v, ast.FormattedValue):
                    if not (same_value(ctx, f, u.value, v.value)
                            or same_value(ctx, f, resolve_local(ctx, f, u.value), resolve_local(ctx, f, v.value))):
                        return False
                else:
                    return False
            return True
        if (same_value(ctx, f, A, R) or same_value(ctx, f, Ar, Rr) or same_path(Ar, Rr)) and map_ok:
            ctx.ok(rid, f0, st, "the index and the backend key of this entry are computed from the same path", facts, label=f"entry {tag}: one path")
        elif not map_ok:
            ctx.violation(rid, f0, vs, f"the backend key is re-labelled with `{norm(M)}` instead of the vectorisation label map", facts,
                          label=f"entry {tag}: one path")
        else:
            ctx.violation(rid, f0, st, f"the index is computed for `{norm(A)}` but the backend variable for `{norm(R)}`: the column is read from "
                                      f"one variable at the position of another", facts, label=f"entry {tag}: one path")
        # (ii) same dictionary key
        if keys and vkeys and len(vkeys) == 1 and same_value(ctx, f, keys[-1], vkeys[-1]):
            ctx.ok(rid, f0, st, "index map and backend-variable map are keyed by the same value", facts, label=f"entry {tag}: one key")
        else:
            ctx.violation(rid, f0, vs, f"the index is stored under `{norm(keys[-1])}` but the backend variable under "
                                      f"`{norm(vkeys[-1]) if vkeys else '?'}`: run() pops the series by the index map's key and would read another "
                                      f"(or no) variable", facts, label=f"entry {tag}: one key")
        # (iii) the path is <resolved node>/<op>/<var> of the query that resolved the nodes
        if isinstance(Ar, ast.Call) and call_name(Ar) == "_relabel_var":
            ctx.violation(rid, f0, st, f"the path `{norm(A)}` handed to _get_var_idx is a re-labelled backend key, not the frontend path "
                                      f"<node>/<op>/<var> of the resolved node", facts, label=f"entry {tag}: path of the resolved node")
            continue
        # the path expression: an f-string `<node>/<op>/<var>` written in place, or an element of a list of such strings that was
        # built by one comprehension over the node list (`keys = [f"{t}/{op}/{var}" for t in nodes]`; `for k in keys` / `keys[0]`)
        Ar = _as_path_fstring(ctx, f, Ar)
        js, elem_of, const_idx, key_list = Ar, None, None, None
        pf = f          # the function in which the path template, its holes and the node list live
        if not isinstance(Ar, ast.JoinedStr):
            src = None
            if isinstance(Ar, ast.Name):
                bl = binding_loop(ctx, f, Ar)
                if bl is not None and isinstance(bl[0], ast.Name) and isinstance(bl[1], (ast.Name, ast.Call)):
                    src = bl[1]
            elif isinstance(Ar, ast.Subscript) and isinstance(Ar.value, ast.Name) and isinstance(Ar.slice, ast.Constant) \
                    and isinstance(Ar.slice.value, int):
                src, const_idx = Ar.value, Ar.slice.value
            comp = resolve_local(ctx, f, src) if isinstance(src, ast.Name) else src
            if isinstance(comp, ast.Call):
                # the key list is produced by a helper of the module that could not be spliced in (called in a loop header):
                # continue in the helper, with the list it returns
                ts, how = ctx.cg.resolve_call(f, comp)
                ts = [t for t in ts if getattr(t.module, "rel", None) == f.module.rel]
                if len(ts) == 1 and how != "external" and not str(how).startswith("unresolved"):
                    hrets = [n for n in walk_shallow(ts[0].node) if isinstance(n, ast.Return) and n.value is not None]
                    if len(hrets) == 1:
                        pf = ts[0]
                        comp = resolve_local(ctx, pf, hrets[0].value) if isinstance(hrets[0].value, ast.Name) else hrets[0].value
            if isinstance(comp, ast.ListComp) and len(comp.generators) == 1 and not comp.generators[0].ifs \
                    and isinstance(comp.generators[0].target, ast.Name) and isinstance(comp.generators[0].iter, ast.Name) \
                    and isinstance(_as_path_fstring(ctx, pf, comp.elt), ast.JoinedStr):
                js, elem_of, key_list = _as_path_fstring(ctx, pf, comp.elt), comp.generators[0], src
            else:
                raise AnalysisError(f"{rid}: the path `{norm(A)}` handed to _get_var_idx is not an f-string `<node>/<op>/<var>` "
                                    f"(unrecognised form)")
        tpl = fstring_template(js)
        holes = [v.value for v in js.values if isinstance(v, ast.FormattedValue)]
        import re
        if not re.fullmatch(r"⟨[^⟩]*⟩/⟨[^⟩]*⟩/⟨[^⟩]*⟩", tpl or "") or len(holes) != 3:
            raise AnalysisError(f"{rid}: the path template `{tpl}` is not `<node>/<op>/<var>` (unrecognised form)")
        nh, oh, vh = holes
        why = None
        T = None

        def always_same_element(lists, idx):
            for a in ancestors(st):
                if isinstance(a, (ast.For, ast.AsyncFor)) and isinstance(a.iter, ast.Name) and any(same_value(ctx, f, a.iter, L) for L in lists):
                    return (f"the entry is written once per element of `{a.iter.id}` but always indexes element {idx}: every "
                            f"node's column carries the first node's trajectory")
            return None
        if elem_of is not None:
            # element of the comprehension: its node part must be the comprehension variable
            if isinstance(nh, ast.Name) and comp_generator_of(nh) is elem_of:
                T = elem_of.iter
                if const_idx is not None:
                    why = always_same_element([T, key_list] if pf is f else [key_list], const_idx)
        elif isinstance(nh, ast.Name):
            b = binding_loop(ctx, pf, nh)
            if b is not None and isinstance(b[0], ast.Name) and isinstance(b[1], ast.Name):
                T = b[1]
            elif b is not None and isinstance(b[0], ast.Tuple) and len(b[0].elts) == 2 and position_in_target(b[0], nh.id) == 1 \
                    and isinstance(b[1], ast.Call) and call_name(b[1]) == "enumerate" and len(b[1].args) == 1 and isinstance(b[1].args[0], ast.Name):
                T = b[1].args[0]
            elif b is None:
                # index loop: `node = nodes[i]` with i bound by `for i in range(len(nodes))`
                el = resolve_local(ctx, pf, nh)
                if isinstance(el, ast.Subscript) and isinstance(el.slice, ast.Name) and isinstance(el.value, ast.Name):
                    ib = binding_loop(ctx, pf, el.slice)
                    if ib is not None and isinstance(ib[0], ast.Name) and isinstance(ib[1], ast.Call) and isinstance(ib[1].func, ast.Name) \
                            and ib[1].func.id == "range" and len(ib[1].args) == 1 and isinstance(ib[1].args[0], ast.Call) \
                            and call_name(ib[1].args[0]) == "len" and len(ib[1].args[0].args) == 1 \
                            and same_value(ctx, pf, ib[1].args[0].args[0], el.value):
                        T = el.value
        elif isinstance(nh, ast.Subscript) and isinstance(nh.value, ast.Name) and isinstance(nh.slice, ast.Constant):
            T = nh.value
            why = always_same_element([T], nh.slice.value)
        if T is None:
            why = why or f"the node part `{norm(nh)}` of the path is not an element of the node list returned by get_nodes"
        gn = None
        if T is not None:
            q = _node_query(ctx, pf, T, rid)
            if q is None:
                why = why or f"`{T.id}` is not the result of get_nodes"
            else:
                gn, op_is, var_is, asked = q
                if why is None and not (op_is(oh) and var_is(vh)):
                    why = f"the path uses operator/variable `{norm(oh)}/{norm(vh)}` but the nodes were resolved for `{asked}`"
        if why is None:
            ctx.ok(rid, f0, st, "the path is <node>/<op>/<var> with <node> from the resolved node list and <op>/<var> the pair get_nodes resolved",
                   {"template": tpl, "resolved_by": norm(gn)}, label=f"entry {tag}: path of the resolved node")
        else:
            ctx.violation(rid, f0, st, f"the index is not computed for the node this entry is written for: {why}", {"template": tpl},
                          label=f"entry {tag}: path of the resolved node")
    for vs, vk, _ in var_stores:
        if id(vs) not in used:
            ctx.violation(rid, f0, vs, f"a backend variable is stored in `{var_map}` without an index in `{idx_map}` in the same branch",
                          label=f"orphan {norm(vs)}")



def r4_positions_inside_backend_variable(ctx, rid):
    """run() slices each backend variable's record with positions INSIDE that variable.  _get_var_idx translates such a
    position into a state-vector position whenever the layout of an earlier get_run_func/get_jacobian_func call is
    still stored on the template (self._state_var_indices).  Hence: in run(), every path from the compilation (apply) to
    each get_variable_positions call must drop that layout first; and the translation branch of _get_var_idx must only
    be taken from the stored layout (so that dropping it is sufficient)."""
    import ast as _ast
    from engine.util import call_name as _cn, stmt_calls as _sc
    f0 = ctx.repo.get_func(REL, "CircuitTemplate.run")
    # the output look-up (and the input loop, state storing, ...) may have been moved into private helpers: they are spliced in
    f = inlined(ctx, f0, keep=("get_variable_positions", "_add_input", "_get_var_idx"))
    cfg = ctx.cfg(f)
    applies = [st for st in cfg.stmts() if not isinstance(st, (_ast.If, _ast.For, _ast.While, _ast.Try, _ast.With)) and any(
        _cn(c) == "apply" and isinstance(c.func, _ast.Attribute) for c in _sc(st))]
    def looks_up_positions(c):
        """the call computes output positions on its receiver: get_variable_positions itself, or a method of the same class that
        could not be spliced in (receiver of unknown type) and calls get_variable_positions on its own self"""
        if _cn(c) == "get_variable_positions" and isinstance(c.func, _ast.Attribute):
            return True
        if not isinstance(c.func, _ast.Attribute):
            return False
        ts, how = ctx.cg.resolve_call(f, c)
        if len(ts) != 1 or how == "external" or str(how).startswith("unresolved"):
            return False
        g_ = ts[0]
        if g_.cls is None or f0.cls is None or g_.cls.name != f0.cls.name or g_.is_static:
            return False
        inner = [x for x in walk_shallow(g_.node) if isinstance(x, _ast.Call) and _cn(x) == "get_variable_positions"]
        return bool(inner) and all(isinstance(x.func, _ast.Attribute) and isinstance(x.func.value, _ast.Name) and x.func.value.id == g_.self_name
                                   for x in inner)
    uses = [st for st in cfg.stmts() if not isinstance(st, (_ast.If, _ast.For, _ast.While, _ast.Try, _ast.With)) and any(
        looks_up_positions(c) for c in _sc(st))]
    if len(applies) != 1 or not uses:
        raise AnalysisError(f"{rid}: run(): apply / get_variable_positions calls not recognised ({len(applies)}, {len(uses)})")
    recvs = set()
    for st in uses:
        for c in _sc(st):
            if looks_up_positions(c):
                recvs.add(_ast.unparse(c.func.value))
    if len(recvs) != 1:
        raise AnalysisError(f"{rid}: run(): get_variable_positions is called on several receivers {sorted(recvs)}")
    recv = recvs.pop()

    def drops(st):
        if isinstance(st, _ast.Assign):
            for t in st.targets:
                if isinstance(t, _ast.Attribute) and t.attr == "_state_var_indices" and _ast.unparse(t.value) == recv:
                    v = st.value
                    return (isinstance(v, _ast.Dict) and not v.keys) or (isinstance(v, _ast.Call) and _cn(v) == "dict" and not v.args and not v.keywords)
        if isinstance(st, _ast.Expr) and isinstance(st.value, _ast.Call) and _cn(st.value) == "clear" and isinstance(st.value.func, _ast.Attribute):
            r = st.value.func.value
            return isinstance(r, _ast.Attribute) and r.attr == "_state_var_indices" and _ast.unparse(r.value) == recv
        return False
    for u in uses:
        path = cfg.reachable_avoiding(applies[0], u, drops)
        if path is None:
            ctx.ok(rid, f0, u, f"the stale state-vector layout of `{recv}` is dropped between compilation and the computation of output positions",
                   {"receiver": recv})
        else:
            ctx.violation(rid, f0, u, f"run() computes output positions while `{recv}._state_var_indices` may still hold the state-vector layout of an "
                                     f"earlier get_run_func/get_jacobian_func call: _get_var_idx then returns state-vector positions and run() slices "
                                     f"the variable's own record with them (another unit's trajectory under the requested label)",
                          {"witness": cfg.path_str(path), "receiver": recv})
    g = ctx.repo.get_func(REL, "CircuitTemplate._get_var_idx")
    subs = [n for n in _ast.walk(g.node) if isinstance(n, _ast.Subscript) and isinstance(n.value, _ast.Attribute)
            and n.value.attr not in ("_vectorization_indices",) and isinstance(n.value.value, _ast.Name) and n.value.value.id == g.self_name]
    tables = sorted({n.value.attr for n in subs})
    if tables == ["_state_var_indices"] or not tables:
        ctx.ok(rid, g, g.node, "_get_var_idx translates positions only through the stored layout _state_var_indices", {"tables": tables},
               label="translation table of _get_var_idx")
    else:
        raise AnalysisError(f"{rid}: _get_var_idx reads unexpected tables {tables}")



def r5_index_lists_applied(ctx, rid):
    """The node named in a path is reached through the per-node index lists of the merged vector: an index list may be dropped
    only when it is provably the identity (same rules as C04-R6 and the shared permutation lint)."""
    from .c04 import r6_indexing_dropped_only_for_identity
    from ._identity_lint import permutation_test_as_identity
    r6_indexing_dropped_only_for_identity(ctx, rid)
    permutation_test_as_identity(ctx, rid)


# --------------------------------------------------------------------------------------------
# R6 — a path identifier that is handed on repeatedly is not consumed by the resolver
# --------------------------------------------------------------------------------------------

_FRESH_CALLS = {"list", "tuple", "sorted", "copy", "deepcopy", "split", "rsplit", "reversed"}


def _path_resolvers(ctx):
    """{function: name of its path-identifier parameter}: CircuitTemplate.get_nodes (anchor) and every function of the module
    that accepts a path either as a '/'-separated string or as a list of levels (a parameter that is re-bound to its own split)."""
    gn = ctx.repo.get_func(REL, f"{CLS}.get_nodes")
    own = [x for x in gn.params if x != gn.self_name]
    ctx.require(own, "C06-R6: CircuitTemplate.get_nodes lost its identifier parameter")
    out = {gn: own[0]}
    for f in ctx.repo.all_functions([REL]):
        for st in walk_shallow(f.node):
            if isinstance(st, ast.Assign) and len(st.targets) == 1 and isinstance(st.targets[0], ast.Name) and st.targets[0].id in f.params \
                    and st.targets[0].id != f.self_name and f not in out:
                nm = st.targets[0].id
                if any(isinstance(c, ast.Call) and isinstance(c.func, ast.Attribute) and c.func.attr == "split"
                       and isinstance(c.func.value, ast.Name) and c.func.value.id == nm for c in ast.walk(st.value)):
                    out[f] = nm
    return out


def r6_identifier_not_consumed(ctx, rid):
    """get_nodes (and the other path resolvers) descend a hierarchy by handing the remaining levels of the identifier to the
    resolvers of the sub-circuits.  If a resolver shortens / edits the identifier *object* it was given (pop, del, remove, insert,
    slice assignment - directly, through an alias or in a callee) and a caller hands the same object to a resolver more than once
    (every sibling of a wildcard level, every iteration of a loop), later resolutions see another path than the one that was
    asked for: the same path denotes different variables depending on the position in the hierarchy."""
    eff = ctx.effects
    resolvers = _path_resolvers(ctx)
    consumed = {}
    for r, prm in resolvers.items():
        evs = [e for e in eff.events_of(r, None) if e.origin[0] == "P" and e.origin[1] == prm and e.origin[2] == ()]
        if evs or any(pp == prm and path == () for pp, path in eff.mutates(r, None)):
            consumed[r] = evs
    # every place where an identifier is handed to a resolver
    n_sites = 0
    shared_sites = []
    for f in ctx.repo.all_functions():
        calls = [c for c in ordered(walk_shallow(f.node)) if isinstance(c, ast.Call) and call_name(c) in {r.name for r in resolvers}]
        if not calls:
            continue
        rd = ctx.rd(f)
        passed = []       # (call, resolver targets, argument)
        for c in calls:
            targets, how = ctx.cg.resolve_call(f, c)
            ts = [t for t in targets if t in resolvers]
            if not ts:
                continue
            if any(isinstance(a, ast.Starred) for a in c.args) or any(k.arg is None for k in c.keywords):
                raise AnalysisError(f"{rid}: `{norm(c)}` in {f.qualname} passes */** arguments to a path resolver (unrecognised form)")
            for t in ts:
                ps = [x for x in t.params if x != t.self_name or t.is_static]
                bound = dict(zip(ps, c.args))
                bound.update({k.arg: k.value for k in c.keywords})
                if resolvers[t] in bound:
                    passed.append((c, t, bound[resolvers[t]]))
        seen_calls = set()
        for c, t, a in passed:
            if (id(c), t) in seen_calls:
                continue
            seen_calls.add((id(c), t))
            n_sites += 1
            why_shared = None
            if isinstance(a, (ast.Name, ast.Attribute)) or (isinstance(a, ast.Subscript) and not isinstance(a.slice, ast.Slice)):
                base = a
                while isinstance(base, (ast.Attribute, ast.Subscript)):
                    base = base.value
                if isinstance(base, ast.Name) and comp_generator_of(base) is None:
                    # (i) evaluated repeatedly in a loop that does not re-bind the name
                    for anc in ancestors(c):
                        if isinstance(anc, (ast.FunctionDef, ast.AsyncFunctionDef, ast.Lambda)):
                            break
                        if isinstance(anc, (ast.For, ast.AsyncFor, ast.While)) and any(contains(b_, c) for b_ in anc.body + anc.orelse):
                            rebound = base.id in target_names(anc.target) if not isinstance(anc, ast.While) else False
                            for n in ast.walk(anc):
                                if n is not anc and isinstance(n, ast.Name) and isinstance(n.ctx, (ast.Store, ast.Del)) and n.id == base.id \
                                        and comp_generator_of(n) is None:
                                    rebound = True
                            if not rebound:
                                why_shared = f"it is evaluated in every iteration of `{norm(anc)}` while `{base.id}` stays the same object"
                                break
                        if isinstance(anc, COMPS) and not contains(anc.generators[0].iter, c):
                            why_shared = f"it is evaluated for every element of `{norm(anc)}` while `{base.id}` stays the same object"
                            break
                    # (ii) the same object is also handed to a resolver at another call
                    if why_shared is None and isinstance(a, ast.Name):
                        mine = {id(d) for d in rd.defs_reaching(a)}
                        cfg = ctx.cfg(f)
                        st1 = stmt_of(cfg, c)
                        for c2, t2, a2 in passed:
                            if c2 is not c and isinstance(a2, ast.Name) and a2.id == a.id and mine & {id(d) for d in rd.defs_reaching(a2)}:
                                st2 = stmt_of(cfg, c2)
                                if st1 is None or st2 is None or st1 is st2 or cfg.reachable_after(st1, st2) or cfg.reachable_after(st2, st1):
                                    why_shared = f"the same `{a.id}` is also handed to `{norm(c2)}`"
                                    break
            elif isinstance(a, ast.Call) and call_name(a) not in _FRESH_CALLS and not isinstance(a.func, ast.Name):
                why_shared = None      # result of a method call: a new value for all resolvers of this module (strings / fresh lists)
            label = f"identifier handed to {t.qualname}: {norm(c)}"
            if why_shared is None:
                ctx.ok(rid, f, c, "the identifier is a new object at every call (slice / copy / string) or is handed over once", label=label,
                       nontrivial=False)
                continue
            shared_sites.append((f, c, t))
            if t in consumed:
                how = consumed[t][0].how if consumed[t] else f"a callee mutates its `{resolvers[t]}`"
                where = f" (line {consumed[t][0].stmt.lineno})" if consumed[t] and hasattr(consumed[t][0].stmt, "lineno") else ""
                ctx.violation(rid, f, c, f"`{norm(a)}` is handed to {t.qualname} repeatedly - {why_shared} - but {t.qualname} edits the "
                                         f"identifier object it receives in place ({how}{where}): after the first resolution that descends "
                                         f"further, the remaining resolutions see a shortened path, so a wildcard path denotes other nodes "
                                         f"under later siblings than under the first", {"mutation": how}, label=label)
            else:
                ctx.ok(rid, f, c, f"`{norm(a)}` is handed over repeatedly ({why_shared}); {t.qualname} never edits it in place", label=label)
    ctx.require(n_sites >= 6, f"{rid}: only {n_sites} call sites of the path resolvers found (a rule that matches nothing would pass vacuously)")
    for r, prm in resolvers.items():
        label = f"resolver {r.qualname} and its identifier `{prm}`"
        if r not in consumed:
            ctx.ok(rid, r, r.node, f"{r.qualname} never edits the identifier object `{prm}` it was given (neither directly nor in a callee)",
                   label=label)
        elif not any(t is r for _, _, t in shared_sites):
            ctx.ok(rid, r, r.node, f"{r.qualname} edits `{prm}` in place, but no caller hands the same object to it more than once",
                   {"mutation": consumed[r][0].how if consumed[r] else "in a callee"}, label=label)
        # else: reported at the call sites above


# --------------------------------------------------------------------------------------------
# R7 — what a resolver decides for one node is not reused for another node
# --------------------------------------------------------------------------------------------

def _resolver_closure(ctx):
    """The path resolvers and the methods of the same class they delegate the per-node work to (call graph, two levels)."""
    roots = list(_path_resolvers(ctx))
    out = list(roots)
    frontier = roots
    for _ in range(2):
        nxt = []
        for f in frontier:
            for t in ctx.cg.callees(f):
                if t not in out and getattr(t.module, "rel", None) == REL and t.cls is not None and f.cls is not None \
                        and t.cls.name == f.cls.name:
                    out.append(t)
                    nxt.append(t)
        frontier = nxt
    return out


def r7_per_node_decision_not_shared(ctx, rid):
    """A resolver walks over node keys and decides for each of them (does it exist, does it carry op/var, ...).  A container that
    outlives one iteration and is both written and consulted inside the loop is a memo: the decision taken for one element is
    reused for another.  That is only sound when the memo key identifies the node - the element itself (its key / path), something
    built only from loop variables, or the identity of the object looked up for it - never a descriptive attribute of that object
    (`.name`, `.path`, ...): node templates are shared and copied, so such attributes coincide for different nodes and the answer
    of the first one (in declaration order) would decide for the others."""
    n_loops = 0
    for f in _resolver_closure(ctx):
        rd = ctx.rd(f)
        loops = [n for n in walk_shallow(f.node) if isinstance(n, (ast.For, ast.AsyncFor))]
        for loop in ordered(loops):
            if any(isinstance(a, (ast.For, ast.AsyncFor, ast.While)) for a in ancestors(loop) if contains(f.node, a) and a is not f.node):
                continue          # inner loops are covered with their outermost loop
            n_loops += 1

            def inside(n):
                return any(contains(b, n) for b in loop.body)

            def outlives(cont) -> bool:
                """the container object exists before the loop starts (local defined outside, attribute, parameter)"""
                base = cont
                while isinstance(base, (ast.Attribute, ast.Subscript)):
                    base = base.value
                if not isinstance(base, ast.Name) or comp_generator_of(base) is not None:
                    return False
                if isinstance(cont, ast.Attribute):
                    return True
                defs = rd.defs_reaching(base)
                return bool(defs) and any(isinstance(d, ast.arguments) or not inside(d) and d is not loop for d in defs)
            uses: Dict[str, Dict[str, list]] = {}       # container text -> {"read": [(key, node)], "write": [...]}

            def note(cont, kind, key, node):
                if isinstance(cont, (ast.Name, ast.Attribute)) and outlives(cont):
                    uses.setdefault(ast.unparse(cont), {"read": [], "write": []})[kind].append((key, node))
            for b in loop.body:
                for n in ast.walk(b):
                    if isinstance(n, ast.Subscript) and not isinstance(n.slice, ast.Slice):
                        note(n.value, "write" if isinstance(n.ctx, (ast.Store, ast.Del)) else "read", n.slice, n)
                    elif isinstance(n, ast.Compare) and len(n.ops) == 1 and isinstance(n.ops[0], (ast.In, ast.NotIn)):
                        note(n.comparators[0], "read", n.left, n)
                    elif isinstance(n, ast.Call) and isinstance(n.func, ast.Attribute) and n.args:
                        if n.func.attr in ("add", "append", "setdefault", "insert"):
                            note(n.func.value, "write", n.args[-1] if n.func.attr == "insert" else n.args[0], n)
                        if n.func.attr in ("get", "setdefault", "pop", "index", "count"):
                            note(n.func.value, "read", n.args[0], n)
            memos = {c: u for c, u in uses.items() if u["read"] and u["write"]}
            label0 = f"loop {norm(loop)}"
            if not memos:
                ctx.ok(rid, f, loop, "nothing decided for one element is kept for later elements: every node is examined itself",
                       label=f"{label0}: per-node decision", nontrivial=False)
                continue
            loop_vars = set(target_names(loop.target))
            for b in loop.body:
                for n in ast.walk(b):
                    if isinstance(n, (ast.For, ast.AsyncFor)):
                        loop_vars |= set(target_names(n.target))
            for cont, u in sorted(memos.items()):
                verdicts = []
                for key, node in u["read"] + u["write"]:
                    verdicts.append((_memo_key_kind(ctx, f, loop, loop_vars, key), key, node))
                bad = [v for v in verdicts if v[0][0] in ("attribute", "invariant")]
                unknown = [v for v in verdicts if v[0][0] == "unknown"]
                label = f"{label0}: memo {cont}"
                if bad:
                    (kind_, what), key, node = bad[0]
                    if kind_ == "invariant":
                        what = what + " (the key is the same for every element)"
                    ctx.violation(rid, f, node, f"`{cont}` outlives one iteration of `{norm(loop)}` and is consulted and filled under the key "
                                                f"`{norm(key)}`, i.e. under {what}: that is a description of the node's template, not the "
                                                f"node - templates are shared, copied and may carry the same name/path for different nodes - "
                                                f"so what was decided for the first such node (in declaration order) is reused for the "
                                                f"others and the path resolves to another node set than the one it denotes",
                                  {"keys": sorted({norm(k) for _, k, _ in verdicts})}, label=label)
                elif unknown:
                    raise AnalysisError(f"{rid}: cannot tell what the key `{norm(unknown[0][1])}` of `{cont}` in {f.qualname} identifies "
                                        f"(unrecognised form)")
                else:
                    ctx.ok(rid, f, loop, f"`{cont}` is keyed by the element / its identity ({sorted({v[0][1] for v in verdicts})})",
                           {"keys": sorted({norm(k) for _, k, _ in verdicts})}, label=label)
    ctx.require(n_loops >= 2, f"{rid}: only {n_loops} loops found in the path resolvers (a rule that matches nothing would pass vacuously)")


def _memo_key_kind(ctx, f, loop, loop_vars, key, depth: int = 4):
    """('element', why) - built from loop variables only; ('identity', why) - id(obj) / the object looked up for the element;
    ('attribute', why) - reads an attribute (or a derived property) of such an object; ('unknown', '')."""
    e = key
    if isinstance(e, ast.Name) and e.id not in loop_vars and comp_generator_of(e) is None and depth > 0:
        defs = ctx.rd(f).defs_reaching(e)
        if defs and all(isinstance(d, ast.arguments) or not (d is loop or contains(loop, d)) for d in defs):
            return ("invariant", "a value that does not change during the loop")
        if len(defs) == 1 and not isinstance(defs[0], ast.arguments) and any(contains(b, defs[0]) for b in loop.body):
            v = assigned_value(defs[0], e.id)
            if v is not None:
                if isinstance(v, ast.Call) and not (isinstance(v.func, ast.Name) and v.func.id in ("str", "tuple", "id", "repr")) \
                        and not (isinstance(v.func, ast.Attribute) and isinstance(v.func.value, ast.Constant)):
                    # an object obtained for this element (template look-up, ...): used as a key it stands for its identity
                    names = {n.id for n in ast.walk(v) if isinstance(n, ast.Name)}
                    if names & loop_vars:
                        return ("identity", f"the object `{norm(v)}` itself")
                    return ("unknown", "")
                return _memo_key_kind(ctx, f, loop, loop_vars, v, depth - 1)
        return ("unknown", "")
    if isinstance(e, ast.Call) and isinstance(e.func, ast.Name) and e.func.id == "id" and len(e.args) == 1:
        return ("identity", f"id({norm(e.args[0])})")
    # attributes: `obj.attr` (not the method of a literal like "/".join)
    for n in ast.walk(e):
        if isinstance(n, ast.Attribute) and not isinstance(n.value, ast.Constant):
            par = parent(n)
            if isinstance(par, ast.Call) and par.func is n and isinstance(n.value, ast.Name) and n.value.id in loop_vars:
                continue          # method of the element itself (`n.split('/')`, `n.lower()`)
            return ("attribute", f"the attribute `{norm(n)}`")
    names = [n for n in ast.walk(e) if isinstance(n, ast.Name) and isinstance(n.ctx, ast.Load)]
    kinds = []
    for n in names:
        if n.id in loop_vars or comp_generator_of(n) is not None:
            kinds.append("element")
        elif n.id in ("str", "tuple", "repr", "len", "int", "id"):
            continue
        else:
            sub = _memo_key_kind(ctx, f, loop, loop_vars, n, depth - 1) if depth > 0 else ("unknown", "")
            if sub[0] in ("attribute", "unknown"):
                return sub
            kinds.append(sub[0])
    if kinds and all(k == "invariant" for k in kinds):
        return ("invariant", "values that do not change during the loop")
    kinds = [k for k in kinds if k != "invariant"]
    if kinds and all(k == "element" for k in kinds):
        return ("element", "the loop element")
    if kinds:
        return ("identity", "the element / the object looked up for it")
    return ("unknown", "")


# --------------------------------------------------------------------------------------------
# R8 — whether an edge carries its own column index is decided by presence, not by truthiness
# --------------------------------------------------------------------------------------------

def _edge_index_keys(ctx, rid):
    """Keys of the per-edge attribute dicts that _add_input writes besides the weight (the per-column index of the input edge),
    together with their source/target counterparts."""
    f = ctx.repo.get_func(REL, f"{CLS}._add_input")
    keys = set()
    for n in walk_shallow(f.node):
        if isinstance(n, ast.Dict) and any(isinstance(k, ast.Constant) and k.value == "weight" for k in n.keys):
            keys |= {k.value for k in n.keys if isinstance(k, ast.Constant) and isinstance(k.value, str) and k.value != "weight"}
    attr_dicts = {t.id for st in walk_shallow(f.node) if isinstance(st, ast.Assign) and isinstance(st.value, ast.Dict)
                  and any(isinstance(k, ast.Constant) and k.value == "weight" for k in st.value.keys)
                  for t in st.targets if isinstance(t, ast.Name)}
    for n in walk_shallow(f.node):
        if isinstance(n, ast.Subscript) and isinstance(n.ctx, ast.Store) and isinstance(n.value, ast.Name) and n.value.id in attr_dicts \
                and isinstance(n.slice, ast.Constant) and isinstance(n.slice.value, str):
            keys.add(n.slice.value)
    ctx.require(keys, f"{rid}: _add_input writes no per-edge index next to the weight (anchor vanished)")
    for k in list(keys):
        for a, b in (("source", "target"), ("target", "source")):
            if a in k:
                keys.add(k.replace(a, b))
    return keys


def _truth_tested(n: ast.AST) -> Optional[ast.AST]:
    """The construct that branches on the truthiness of expression n (if / while / conditional expression / not / and / or), else None."""
    p = parent(n)
    if isinstance(p, (ast.If, ast.While, ast.IfExp)) and p.test is n:
        return p
    if isinstance(p, ast.UnaryOp) and isinstance(p.op, ast.Not):
        return p
    if isinstance(p, ast.BoolOp):
        if n is not p.values[-1]:
            return p
        return _truth_tested(p)
    if isinstance(p, ast.Call) and isinstance(p.func, ast.Name) and p.func.id == "bool" and p.args and p.args[0] is n:
        return p
    return None


def r8_column_index_by_presence(ctx, rid):
    """_add_input gives edge i of a multi-column input the attribute `source_idx = i`; column 0 is a legal index.  Code that
    consumes the attribute must tell "no index given" from "index 0": by membership (`k in d`), by comparing a looked-up value with
    None, or by a look-up that raises - never by the truthiness of the looked-up index (`d.get(k) or ...`, `x = d.pop(k, None)` ...
    `if x`), which sends column 0 down the 'no index' path (the edge then carries all columns and the first target is driven by the
    wrong signal)."""
    keys = _edge_index_keys(ctx, rid)
    funcs = ctx.repo.all_functions([REL])
    from ._pitfall_lints import truthiness_of_optional_lookup
    shared = {}
    for f, site, why, lk in truthiness_of_optional_lookup(ctx, funcs):
        if isinstance(lk, ast.Call) and lk.args and isinstance(lk.args[0], ast.Constant) and lk.args[0].value in keys:
            shared[id(lk)] = (site, why)
    n_presence = 0
    for f in funcs:
        rd = ctx.rd(f)
        nodes = list(walk_shallow(f.node))
        lookups = [n for n in nodes if isinstance(n, ast.Call) and isinstance(n.func, ast.Attribute) and n.func.attr in ("get", "pop", "setdefault")
                   and n.args and isinstance(n.args[0], ast.Constant) and n.args[0].value in keys]
        members = [n for n in nodes if isinstance(n, ast.Compare) and len(n.ops) == 1 and isinstance(n.ops[0], (ast.In, ast.NotIn))
                   and isinstance(n.left, ast.Constant) and n.left.value in keys]
        if not lookups and not members:
            continue
        # is the stored value a scalar here?  (wrapped into a one-element list, used as a position)
        scalar = set()
        for n in nodes:
            if isinstance(n, ast.List) and len(n.elts) == 1:
                e = n.elts[0]
                if e in lookups:
                    scalar.add(e.args[0].value)
                elif isinstance(e, ast.Subscript) and isinstance(e.slice, ast.Constant) and e.slice.value in keys:
                    scalar.add(e.slice.value)
                elif isinstance(e, ast.Name):
                    for d in rd.defs_reaching(e):
                        v = assigned_value(d, e.id)
                        if v in lookups:
                            scalar.add(v.args[0].value)
        seen: Dict[str, int] = {}
        for m in ordered(members):
            txt = norm(m)
            seen[txt] = seen.get(txt, 0) + 1
            n_presence += 1
            ctx.ok(rid, f, m, f"whether the edge carries `{m.left.value}` is decided by membership", label=f"presence of {m.left.value}: {txt}"
                   + (f" #{seen[txt]}" if seen[txt] > 1 else ""))
        for lk in ordered(lookups):
            key = lk.args[0].value
            has_default = lk.func.attr == "get" or len(lk.args) > 1
            if not has_default:
                continue              # `d.pop(k)` raises when absent: not a presence decision
            txt = norm(lk)
            seen[txt] = seen.get(txt, 0) + 1
            label = f"look-up of {key}: {txt}" + (f" #{seen[txt]}" if seen[txt] > 1 else "")
            tests, none_tests = [], []
            t = _truth_tested(lk)
            if t is not None:
                tests.append(t)
            st = lk
            while not isinstance(st, ast.stmt):
                st = parent(st)
            if isinstance(st, ast.Assign) and st.value is lk and len(st.targets) == 1 and isinstance(st.targets[0], ast.Name):
                nm = st.targets[0].id
                for n in nodes:
                    if isinstance(n, ast.Name) and n.id == nm and isinstance(n.ctx, ast.Load) and any(d is st for d in rd.defs_reaching(n)):
                        t = _truth_tested(n)
                        if t is not None:
                            tests.append(t)
                        par = parent(n)
                        if isinstance(par, ast.Compare) and len(par.ops) == 1 and isinstance(par.ops[0], (ast.Is, ast.IsNot)) \
                                and any(isinstance(x, ast.Constant) and x.value is None for x in [par.left] + par.comparators):
                            none_tests.append(par)
            if id(lk) in shared and not tests:
                tests.append(shared[id(lk)][0])
            n_presence += 1
            if not tests:
                ctx.ok(rid, f, lk, f"the looked-up `{key}` is never tested by truthiness"
                       + (" (compared with None)" if none_tests else " (handed on as it is)"), label=label, nontrivial=bool(none_tests))
            elif key in scalar:
                ctx.violation(rid, f, tests[0], f"`{norm(lk)}` is tested by truthiness in `{norm(tests[0])[:90]}` while the stored value is a single "
                                                f"index (it is wrapped into a one-element list here): index 0 - the first column of a "
                                                f"multi-column input, written by _add_input - is treated like 'no index given', so that edge "
                                                f"carries all columns and its target is driven by the wrong signal",
                              {"test": norm(tests[0])}, label=label)
            else:
                raise AnalysisError(f"{rid}: `{norm(lk)}` in {f.qualname} is tested by truthiness (`{norm(tests[0])[:80]}`) and it is unclear "
                                    f"whether the stored value is a single index or a list (unrecognised form)")
    ctx.require(n_presence >= 1, f"{rid}: no place found where the presence of {sorted(keys)} on an edge is decided")


# --------------------------------------------------------------------------------------------
# R9 — every positional consumer of a resolved path sees the nodes in the resolver's own order
# --------------------------------------------------------------------------------------------

def r9_resolution_order_kept(ctx, rid):
    """A wildcard path denotes a LIST of nodes, in the order get_nodes resolves it (declaration order of the circuit).  Consumers
    that use positions in that list - column i of an input goes to entry i (enumerate / zip / index loops), `nodes[0]` is 'the' node
    of a single-node output - must see that order; all consumers then agree on which node is number i.  A list that passes through
    sorted / np.sort / np.unique / set / reversed / [::-1] / an argsort index, or is sorted / reversed in place, between the look-up
    and such a use denotes another assignment of positions to nodes than everywhere else."""
    n = 0
    for f in ctx.repo.all_functions([REL]):
        if not any(isinstance(c, ast.Call) and call_name(c) == "get_nodes" for c in walk_shallow(f.node)):
            continue
        rd = ctx.rd(f)

        def trace(e, depth=5, seen=None):
            """(the get_nodes call the value comes from | None, [(where, wrapper, effect)], root local names)"""
            seen = set() if seen is None else seen
            inner, changes = peel_node_list(e)
            found, out, roots = None, [(e, nm, eff_) for nm, eff_ in changes], set()
            if isinstance(inner, ast.Call) and call_name(inner) == "get_nodes":
                return inner, out, roots
            if isinstance(inner, ast.Name) and comp_generator_of(inner) is None and depth > 0:
                roots.add(inner.id)
                for d in rd.defs_reaching(inner):
                    if (id(d), inner.id) in seen:
                        continue
                    seen.add((id(d), inner.id))
                    v = assigned_value(d, inner.id)
                    if v is None:
                        continue
                    g_, ch, rs = trace(v, depth - 1, seen)
                    if g_ is not None:
                        found = g_
                        out += ch
                        roots |= rs
            return found, out, roots
        uses = []          # (use node, list expression)
        for c in ordered(walk_shallow(f.node)):
            if isinstance(c, ast.Call) and isinstance(c.func, ast.Name) and c.func.id in ("enumerate", "zip") and c.args:
                uses += [(c, a) for a in c.args if not isinstance(a, ast.Starred)]
            elif isinstance(c, ast.Call) and isinstance(c.func, ast.Name) and c.func.id == "range" and len(c.args) == 1 \
                    and isinstance(c.args[0], ast.Call) and call_name(c.args[0]) == "len" and len(c.args[0].args) == 1:
                uses.append((c, c.args[0].args[0]))
            elif isinstance(c, ast.Subscript) and isinstance(c.ctx, ast.Load) and not isinstance(c.slice, ast.Slice) \
                    and isinstance(c.value, ast.Name):
                uses.append((c, c.value))
        seen_labels: Dict[str, int] = {}
        for use, e in uses:
            gn, changes, roots = trace(e)
            if gn is None:
                continue
            # in-place re-ordering of the list (or of a local it was copied from)
            for c in walk_shallow(f.node):
                if isinstance(c, ast.Call) and isinstance(c.func, ast.Attribute) and c.func.attr in ("sort", "reverse") \
                        and isinstance(c.func.value, ast.Name) and c.func.value.id in roots:
                    changes.append((c, f".{c.func.attr}()", "re-orders it in place"))
                elif isinstance(c, ast.Call) and call_name(c) == "shuffle" and c.args and isinstance(c.args[0], ast.Name) and c.args[0].id in roots:
                    changes.append((c, "shuffle", "shuffles it in place"))
            n += 1
            txt = f"positional use {norm(use)[:70]} of {norm(gn)[:60]}"
            seen_labels[txt] = seen_labels.get(txt, 0) + 1
            label = txt + (f" #{seen_labels[txt]}" if seen_labels[txt] > 1 else "")
            if changes:
                where, nm, eff_ = changes[0]
                ctx.violation(rid, f, use, f"the nodes that `{norm(gn)[:80]}` resolved reach `{norm(use)[:60]}` through `{nm}`, which {eff_}: "
                                           f"position i no longer denotes the i-th node in the order the circuit declares them and every "
                                           f"other consumer of the same path enumerates them, so e.g. column i of an input drives another "
                                           f"node than the one whose output is reported as number i",
                              {"operations": [x[1] for x in changes]}, label=label)
            else:
                ctx.ok(rid, f, use, "the node list is used by position in the order the resolver returned it (at most copied)", label=label)
    ctx.require(n >= 2, f"{rid}: only {n} positional uses of a get_nodes result found in {REL}")


# --------------------------------------------------------------------------------------------
# R10 — update_var writes only into template objects that a single node holds
# --------------------------------------------------------------------------------------------

def r10_in_place_write_only_on_unshared(ctx, rid):
    """update_var('<path>/op/var') may change exactly the nodes the path denotes.  Node templates are shared objects (several nodes
    of a circuit, other circuits), so a template is written only (a) when it is a copy made for this node in this iteration, or
    (b) when it was looked up / re-used and a registry licenses the write (`id(x) in R`) - and then R must contain only objects
    that ONE node holds: an object that is re-used for a further node (read back from a container and handed to
    add_node_template again) while it may be registered in R has to be removed from R on that path.  Otherwise a later, narrower
    key writes into a template that sibling nodes hold too, and the path no longer denotes only the nodes it names."""
    f0 = ctx.repo.get_func(REL, f"{CLS}.update_var")
    f = inlined(ctx, f0, keep=("get_node_template", "add_node_template", "get_nodes"))      # per-key helpers are spliced in
    rd = ctx.rd(f)
    cfg = ctx.cfg(f)
    eff = ctx.effects

    def kinds(name: ast.Name, depth=3):
        """[(kind, def stmt, value)]: kind in copy / lookup / reuse / other"""
        out = []
        for d in rd.defs_reaching(name):
            v = assigned_value(d, name.id)
            if v is None:
                out.append(("other", d, None))
            elif isinstance(v, ast.Call) and call_name(v) == "get_node_template":
                out.append(("lookup", d, v))
            elif isinstance(v, ast.Call):
                # an object made by a call for this node in this iteration (deepcopy, a constructor, a derived template ...): whether
                # it is deep enough not to share containers with the original is C17-R8's question, not this rule's
                out.append(("copy", d, v))
            elif isinstance(v, ast.Subscript):
                base = v
                while isinstance(base, ast.Subscript):
                    base = base.value
                out.append(("reuse", d, v) if isinstance(base, ast.Name) else ("other", d, v))
            elif isinstance(v, ast.Name) and depth > 0:
                out += [(k, d, vv) for k, _, vv in kinds(v, depth - 1)]
            else:
                out.append(("other", d, v))
        return out

    def is_template_write(c: ast.Call) -> bool:
        if not (isinstance(c.func, ast.Attribute) and isinstance(c.func.value, ast.Name) and c.func.value.id != f.self_name):
            return False
        ts, how = ctx.cg.resolve_call(f, c)
        ts = [t for t in ts if t.cls is not None and t.cls.name != CLS]
        if ts and not str(how).startswith("unresolved") and how != "external":
            return any(any(pp == t.self_name for pp, _ in eff.mutates(t, None)) for t in ts)
        return False

    def licences(node):
        """registries R with `id(x) in R` / `x in R` holding on the way to `node` (enclosing if-branches, positive polarity)"""
        out = []
        for anc in ancestors(node):
            if isinstance(anc, ast.If) and any(contains(b, node) for b in anc.body):
                for t in ([anc.test] + (list(anc.test.values) if isinstance(anc.test, ast.BoolOp) and isinstance(anc.test.op, ast.And) else [])):
                    if isinstance(t, ast.Compare) and len(t.ops) == 1 and isinstance(t.ops[0], ast.In) and isinstance(t.comparators[0], ast.Name):
                        out.append((t.comparators[0].id, t.left))
        return out
    writes = [c for c in ordered(walk_shallow(f.node)) if isinstance(c, ast.Call) and is_template_write(c)]
    if not writes:
        # copy-on-write design: the written object is the RESULT of an accessor call (`self._own_template(n).update_var(...)`), the
        # accessor decides between the circuit's own object and a fresh copy and keeps an ownership record.  That protocol
        # (accessor, ownership attribute, record emptied wherever the held templates are passed to a newly constructed circuit) is
        # modelled by C17-R8; the same decision is a necessary condition here, so it is taken over under this rule's id.
        via_call = [c for c in ordered(walk_shallow(f.node)) if isinstance(c, ast.Call) and isinstance(c.func, ast.Attribute)
                    and isinstance(c.func.value, ast.Call)]
        mutating = []
        for c in via_call:
            ts, how = ctx.cg.resolve_call(f, c)
            ts = [t for t in ts if t.cls is not None and t.cls.name != CLS]
            if ts and any(any(pp == t.self_name for pp, _ in eff.mutates(t, None)) for t in ts):
                mutating.append(c)
        if mutating:
            from .c17 import r8_override_written_into_unshared_copy
            return r8_override_written_into_unshared_copy(ctx, rid)
    ctx.require(writes, f"{rid}: no in-place update of a node template found in update_var (anchor vanished)")
    licence_regs = set()
    seen: Dict[str, int] = {}
    for c in writes:
        x = c.func.value
        txt = norm(c)
        seen[txt] = seen.get(txt, 0) + 1
        label = f"in-place write {txt}" + (f" #{seen[txt]}" if seen[txt] > 1 else "")
        ks = kinds(x)
        if not ks or any(k == "other" for k, _, _ in ks):
            raise AnalysisError(f"{rid}: cannot tell where the template `{x.id}` written by `{txt}` comes from (unrecognised form)")
        if all(k == "copy" for k, _, _ in ks):
            ctx.ok(rid, f0, c, f"`{x.id}` is an object made for this node (copy / newly constructed) before it is written", label=label)
            continue
        lic = [r for r, key in licences(c) if any(isinstance(n, ast.Name) and n.id == x.id for n in ast.walk(key))]
        if not lic:
            ctx.violation(rid, f0, c, f"`{txt}` writes into the template object that get_node_template returned (or that was re-used from a "
                                     f"container) without copying it: node templates are shared between nodes and circuits, so nodes "
                                     f"that the path does not denote change too", label=label)
            continue
        licence_regs |= set(lic)
        ctx.ok(rid, f0, c, f"`{x.id}` is written in place only when it is registered in {sorted(set(lic))}", label=label)
    # ---- a licence registry holds only objects of ONE node
    for R in sorted(licence_regs):
        def stores_into(cont):
            """[(stmt, names stored)] for `cont[...] = value` stores"""
            out = []
            for st in walk_shallow(f.node):
                if isinstance(st, ast.Assign):
                    for t in st.targets:
                        if isinstance(t, ast.Subscript) and isinstance(t.value, ast.Name) and t.value.id == cont:
                            out.append((st, [n for n in ast.walk(st.value) if isinstance(n, ast.Name) and isinstance(n.ctx, ast.Load)]))
            return out
        reg_stores = stores_into(R)
        for st, names in reg_stores:
            for n in names:
                if any(k in ("lookup", "reuse", "other") for k, _, _ in kinds(n)):
                    raise AnalysisError(f"{rid}: `{norm(st)}` registers an object that is not a fresh copy in `{R}` (unrecognised form)")
        registered_defs = {id(d) for st, names in reg_stores for n in names for d in rd.defs_reaching(n)}

        def removes(st, y: str) -> bool:
            for c in ([st.value] if isinstance(st, ast.Expr) else []) + [n for n in ast.walk(st) if isinstance(n, ast.Call)]:
                if isinstance(c, ast.Call) and isinstance(c.func, ast.Attribute) and isinstance(c.func.value, ast.Name) and c.func.value.id == R \
                        and c.func.attr in ("pop", "discard", "remove", "__delitem__") and c.args \
                        and any(isinstance(n, ast.Name) and n.id == y for n in ast.walk(c.args[0])):
                    return True
            if isinstance(st, ast.Delete):
                return any(isinstance(t, ast.Subscript) and isinstance(t.value, ast.Name) and t.value.id == R
                           and any(isinstance(n, ast.Name) and n.id == y for n in ast.walk(t.slice)) for t in st.targets)
            return False
        hand_overs = [c for c in ordered(walk_shallow(f.node)) if isinstance(c, ast.Call) and call_name(c) == "add_node_template"]
        ctx.require(hand_overs, f"{rid}: update_var no longer hands templates to add_node_template (anchor vanished)")
        for c in hand_overs:
            y = {k.arg: k.value for k in c.keywords}.get("template") or (c.args[1] if len(c.args) > 1 else None)
            if not isinstance(y, ast.Name):
                raise AnalysisError(f"{rid}: `{norm(c)}` hands over something else than a local (unrecognised form)")
            label = f"registry {R}: objects handed to {norm(c)}"
            bad = None
            for k, d, v in kinds(y):
                if k != "reuse":
                    continue
                # the object comes back out of a container: it was given to an earlier node already.  May it be registered in R?
                base = v
                while isinstance(base, ast.Subscript):
                    base = base.value
                # ... only if one and the same object is stored into R and into that container: a path leads from one store to
                # the other without the stored local being re-bound in between
                both = False
                for st_s, names_s in stores_into(base.id):
                    for n in names_s:
                        for dd in rd.defs_reaching(n):
                            if id(dd) not in registered_defs:
                                continue
                            for st_r, names_r in reg_stores:
                                if not any(any(d2 is dd for d2 in rd.defs_reaching(m_)) for m_ in names_r):
                                    continue
                                if st_r is st_s or cfg.reachable_avoiding(st_r, st_s, lambda x_: x_ is dd) is not None \
                                        or cfg.reachable_avoiding(st_s, st_r, lambda x_: x_ is dd) is not None:
                                    both = True
                if not both:
                    continue
                st_c = stmt_of(cfg, c)
                path = cfg.reachable_avoiding(d, st_c, lambda n_: isinstance(n_, ast.stmt) and removes(n_, y.id))
                if path is not None:
                    bad = (d, base.id, cfg.path_str(path))
            if bad is None:
                ctx.ok(rid, f0, c, f"no object that is handed to a further node stays registered in `{R}`", label=label)
            else:
                d, cont, witness = bad
                ctx.violation(rid, f0, d, f"`{norm(d)}` takes a template back out of `{cont}` - it was given to an earlier node already - and "
                                         f"`{norm(c)}` hands it to this node as well, while the same object may still be registered in `{R}`, "
                                         f"which licenses in-place writes: a later key that addresses only one of these nodes writes into the "
                                         f"template all of them hold, so nodes outside the path change too",
                              {"witness": witness}, label=label)


# --------------------------------------------------------------------------------------------
# R11 — the positions computed for the requested variables are applied (or provably the identity on ONE recording)
# --------------------------------------------------------------------------------------------

def r11_positions_applied(ctx, rid):
    """get_variable_positions yields, for every requested variable, the positions of its entries inside the backend variable that
    holds it; run() (and the helpers it delegates to) must cut every trajectory out of THAT variable's recording at THOSE positions.
    Handing out the columns of one recording in request order without indexing (`zip(keys, rec.T)`, `rec[:, i]` with the running
    number i) is the same thing only if every requested key is served by that recording and the positions are exactly 0..n-1 in
    request order; a guard that only compares sizes does not establish either, and a request that mixes variables or orders gets
    another variable's / node's trajectory under its label."""
    run = ctx.repo.get_func(REL, f"{CLS}.run")
    funcs = [run]
    for t in ctx.cg.callees(run):
        if getattr(t.module, "rel", None) == REL and t not in funcs and t.name.startswith("_") and not t.name.startswith("__"):
            funcs.append(t)
    n = 0
    for f in funcs:
        rd = ctx.rd(f)
        # position mappings: `for k, idx in P.items()` with idx used as a column index `x[:, idx]`
        mappings = {}
        for node in walk_shallow(f.node):
            gens = node.generators if isinstance(node, COMPS) else ([node] if isinstance(node, (ast.For, ast.AsyncFor)) else [])
            for gnr in gens:
                it, tg = gnr.iter, gnr.target
                if isinstance(it, ast.Call) and isinstance(it.func, ast.Attribute) and it.func.attr == "items" and isinstance(it.func.value, ast.Name) \
                        and isinstance(tg, ast.Tuple) and len(tg.elts) == 2 and isinstance(tg.elts[1], ast.Name):
                    idx = tg.elts[1].id
                    scope = node
                    used = [x for x in ast.walk(scope) if isinstance(x, ast.Subscript) and isinstance(x.slice, ast.Tuple) and len(x.slice.elts) == 2
                            and isinstance(x.slice.elts[0], ast.Slice) and isinstance(x.slice.elts[1], ast.Name) and x.slice.elts[1].id == idx]
                    if used:
                        mappings.setdefault(it.func.value.id, []).append((node, used[0]))
        if not mappings:
            continue

        def from_mapping(e, depth=3):
            """name of the position mapping whose KEYS the expression enumerates (list(P), P.keys(), P, a local bound to one)"""
            if isinstance(e, ast.Call) and isinstance(e.func, ast.Name) and e.func.id in ("list", "tuple", "sorted") and len(e.args) == 1:
                return from_mapping(e.args[0], depth)
            if isinstance(e, ast.Call) and isinstance(e.func, ast.Attribute) and e.func.attr == "keys" and not e.args:
                return from_mapping(e.func.value, depth)
            if isinstance(e, ast.Name):
                if e.id in mappings:
                    return e.id
                if depth > 0 and comp_generator_of(e) is None:
                    for d in rd.defs_reaching(e):
                        v = assigned_value(d, e.id)
                        if v is not None:
                            r = from_mapping(v, depth - 1)
                            if r:
                                return r
            return None
        for P, sites in sorted(mappings.items()):
            for node, use in sites:
                n += 1
                ctx.ok(rid, f, use, f"the trajectories of `{P}` are cut out of their recordings at the computed positions (`{norm(use)}`)",
                       label=f"positions of {P} applied: {norm(use)[:60]}")
        # index-free deliveries
        for c in ordered(walk_shallow(f.node)):
            if not (isinstance(c, ast.Call) and isinstance(c.func, ast.Name) and c.func.id == "zip" and len(c.args) == 2):
                continue
            K, R = c.args
            P = from_mapping(K)
            rec = R.value if isinstance(R, ast.Attribute) and R.attr == "T" else (R.func.value if isinstance(R, ast.Call) and isinstance(R.func, ast.Attribute)
                                                                                 and R.func.attr == "transpose" else None)
            if P is None or not isinstance(rec, ast.Name):
                continue
            n += 1
            same_rec = identity = None
            sizes_only = []
            for anc in ancestors(c):
                if isinstance(anc, (ast.FunctionDef, ast.AsyncFunctionDef)):
                    break
                if not (isinstance(anc, ast.If) and any(contains(b, c) for b in anc.body)):
                    continue
                conj = list(anc.test.values) if isinstance(anc.test, ast.BoolOp) and isinstance(anc.test.op, ast.And) else [anc.test]
                for t in conj:
                    txt = ast.unparse(t)
                    if isinstance(t, ast.Call) and call_name(t) == "all" and t.args and isinstance(t.args[0], (ast.GeneratorExp, ast.ListComp)) \
                            and any(isinstance(x, ast.Compare) and len(x.ops) == 1 and isinstance(x.ops[0], ast.Is)
                                    and any(isinstance(s_, ast.Name) and s_.id == rec.id for s_ in [x.left] + x.comparators)
                                    for x in ast.walk(t.args[0].elt)):
                        same_rec = t
                    elif any(isinstance(x, ast.Call) and call_name(x) in ("arange", "range") for x in ast.walk(t)) \
                            and (isinstance(t, ast.Compare) or (isinstance(t, ast.Call) and call_name(t) in ("array_equal", "all", "allclose"))):
                        identity = t
                    elif "shape" in txt or "len(" in txt or "ndim" in txt or "size" in txt:
                        sizes_only.append(t)
            label = f"index-free delivery {norm(c)[:60]}"
            if same_rec is not None and identity is not None:
                ctx.ok(rid, f, c, f"the columns of `{rec.id}` are handed out in request order only when every key is served by it "
                                  f"(`{norm(same_rec)[:60]}`) and the positions are 0..n-1 (`{norm(identity)[:60]}`)", label=label)
            else:
                missing = []
                if same_rec is None:
                    missing.append(f"that every requested key is served by `{rec.id}` (keys of other backend variables get its columns)")
                if identity is None:
                    missing.append("that the computed positions are exactly 0..n-1 in request order (another order / a sub-set that happens "
                                   "to have the same size gets the wrong columns)")
                ctx.violation(rid, f, c, f"`{norm(c)}` labels the columns of ONE recording with the requested keys without applying the "
                                         f"positions of `{P}`; the guard "
                                         + (f"`{' and '.join(norm(x) for x in sizes_only)[:120]}` compares sizes only and " if sizes_only else "")
                                         + "does not establish " + "; nor ".join(missing)
                                         + ": a column then carries the trajectory of another variable / node than its label names",
                              {"guards": [norm(x) for x in sizes_only]}, label=label)
    ctx.require(n >= 1, f"{rid}: no place found where run() applies the output positions (anchor vanished)")


RULES = [
    ("C06-R1", r1_namespaces, 11),     # 22 on the pinned tree; merging duplicated look-ups into helpers lowers the count
    ("C06-R2", r2_label_data_lockstep, 4),
    ("C06-R3", r3_same_path, 3),       # three per entry of the index map (3 entries today; merged branches have fewer)
    ("C06-R4", r4_positions_inside_backend_variable, 2),      # one per get_variable_positions call in run() (2 today) + 1
    ("C06-R5", r5_index_lists_applied, 2),
    ("C06-R6", r6_identifier_not_consumed, 7),      # one per resolver (3 today) + one per call site (18 today, require >= 6)
    ("C06-R7", r7_per_node_decision_not_shared, 2),      # one per outermost loop of the resolver closure (+ one per memo)
    ("C06-R8", r8_column_index_by_presence, 1),
    ("C06-R9", r9_resolution_order_kept, 2),
    ("C06-R10", r10_in_place_write_only_on_unshared, 1),
    ("C06-R11", r11_positions_applied, 1),
]
