"""Shared lints for Python pitfalls that broke properties in the seeded rounds.  Each returns *positive* findings only (a
violation needs a reason that can be read off the code); anything else is silence.  Rules register them over their anchored files.

shared_mutable_fill(ctx, funcs)
    `dict.fromkeys(keys, <mutable display>)` / `[<mutable display>] * n`: every key/slot refers to ONE object.  Reported when the
    function afterwards writes *through* an element (`d[k][...] = v`, `d[k].append(...)`, `d[k].update(...)`), because then the write
    shows up under every key.

persistent_memo_key(ctx, funcs)
    A result stored into a container that outlives the call (module-level, class-level, or an attribute of `self`) under key K while
    the stored value V was computed from a parameter (or, for containers shared by all instances, from a `self` attribute) that K does
    not depend on: a second call with another value of that input receives the stale result.

stale_loop_carry(ctx, funcs)
    Inside a `for x in xs` body a local v is bound, *only under a condition*, to a value computed from this iteration's x, is read
    later in the body outside that condition, and is not re-bound on the other path nor at the start of the iteration: an iteration
    in which the condition is false reads the value of an earlier element.
"""
from __future__ import annotations

import ast
from typing import Iterable, List, Tuple

from engine.srcmodel import FunctionInfo, walk_shallow, norm, dotted, parent
from engine.util import call_name, contains, value_sources
from engine.cfg import stmt_of

MUTABLE_CTORS = ("dict", "list", "set", "defaultdict", "OrderedDict", "bytearray")
MUTATORS = ("append", "extend", "insert", "update", "add", "setdefault", "pop", "remove", "clear", "__setitem__")


def _is_mutable_display(e: ast.AST) -> bool:
    if isinstance(e, (ast.Dict, ast.List, ast.Set, ast.ListComp, ast.DictComp, ast.SetComp)):
        return True
    return isinstance(e, ast.Call) and isinstance(e.func, ast.Name) and e.func.id in MUTABLE_CTORS


def _bound_name(st: ast.stmt, value: ast.AST):
    if isinstance(st, ast.Assign) and st.value is value and len(st.targets) == 1 and isinstance(st.targets[0], ast.Name):
        return st.targets[0].id
    if isinstance(st, ast.AnnAssign) and st.value is value and isinstance(st.target, ast.Name):
        return st.target.id
    return None


def shared_mutable_fill(ctx, funcs: Iterable[FunctionInfo]) -> List[Tuple[FunctionInfo, ast.AST, str]]:
    out = []
    for f in funcs:
        for c in walk_shallow(f.node):
            shared = None
            if isinstance(c, ast.Call) and isinstance(c.func, ast.Attribute) and c.func.attr == "fromkeys" and len(c.args) == 2 \
                    and _is_mutable_display(c.args[1]) and (dotted(c.func.value) or "").split(".")[-1] in ("dict", "OrderedDict", "defaultdict"):
                shared = (c, f"`{ast.unparse(c)[:60]}` gives every key the SAME `{ast.unparse(c.args[1])}` object")
            elif isinstance(c, ast.BinOp) and isinstance(c.op, ast.Mult):
                for seq, _n in ((c.left, c.right), (c.right, c.left)):
                    if isinstance(seq, ast.List) and len(seq.elts) == 1 and _is_mutable_display(seq.elts[0]):
                        shared = (c, f"`{ast.unparse(c)[:60]}` repeats ONE `{ast.unparse(seq.elts[0])}` object in every slot")
            if shared is None:
                continue
            node, why = shared
            st = stmt_of(ctx.cfg(f), node)
            name = _bound_name(st, node) if st is not None else None
            if name is None:
                continue
            # a write through an element of that container
            for w in walk_shallow(f.node):
                through = None
                if isinstance(w, (ast.Assign, ast.AugAssign)):
                    for t in (w.targets if isinstance(w, ast.Assign) else [w.target]):
                        if isinstance(t, ast.Subscript) and isinstance(t.value, ast.Subscript) and isinstance(t.value.value, ast.Name) \
                                and t.value.value.id == name:
                            through = w
                elif isinstance(w, ast.Call) and isinstance(w.func, ast.Attribute) and w.func.attr in MUTATORS \
                        and isinstance(w.func.value, ast.Subscript) and isinstance(w.func.value.value, ast.Name) and w.func.value.value.id == name:
                    through = w
                if through is not None:
                    out.append((f, node, f"{why}, and `{norm(through)[:70]}` writes through one of them: the write appears under every "
                                         f"key/slot"))
                    break
    return out


def _container_kind(ctx, f: FunctionInfo, base: ast.AST):
    """'module' | 'class' | 'instance' | None for the container expression of a subscript store."""
    if isinstance(base, ast.Name):
        if ctx.rd(f).is_local(base.id):
            return None
        if base.id in f.module.assigns:
            return "module"
        return None
    if isinstance(base, ast.Attribute) and isinstance(base.value, ast.Name):
        if f.self_name and base.value.id == f.self_name and f.cls is not None:
            attr = ctx.repo.lookup_attr(f.cls, base.attr)
            if attr is not None:
                # class-level mutable attribute: shared by all instances unless __init__ re-binds it
                init = ctx.repo.lookup_method(f.cls, "__init__")
                rebound = init is not None and any(
                    isinstance(s, ast.Assign) and any(isinstance(t, ast.Attribute) and t.attr == base.attr and isinstance(t.value, ast.Name)
                                                      and t.value.id == init.self_name for t in s.targets) for s in walk_shallow(init.node))
                return "instance" if rebound else "class"
            return "instance"
        if f.cls is not None and base.value.id == f.cls.name:
            return "class"
    return None


def persistent_memo_key(ctx, funcs: Iterable[FunctionInfo]) -> List[Tuple[FunctionInfo, ast.AST, str]]:
    out = []
    for f in funcs:
        params = [p for p in f.params if p != f.self_name]
        if not params:
            continue
        for st in walk_shallow(f.node):
            if not (isinstance(st, ast.Assign) and len(st.targets) == 1 and isinstance(st.targets[0], ast.Subscript)):
                continue
            tgt = st.targets[0]
            kind = _container_kind(ctx, f, tgt.value)
            if kind is None:
                continue
            cname = ast.unparse(tgt.value)
            # it is a memo only if the same function also reads the container under a key (lookup before compute)
            reads = [n for n in walk_shallow(f.node) if isinstance(n, ast.Subscript) and isinstance(n.ctx, ast.Load) and ast.unparse(n.value) == cname] \
                + [n for n in walk_shallow(f.node) if isinstance(n, ast.Compare) and len(n.ops) == 1 and isinstance(n.ops[0], (ast.In, ast.NotIn))
                   and ast.unparse(n.comparators[0]) == cname] \
                + [n for n in walk_shallow(f.node) if isinstance(n, ast.Call) and isinstance(n.func, ast.Attribute) and n.func.attr == "get"
                   and ast.unparse(n.func.value) == cname]
            if not reads:
                continue
            kp, ka, _ = value_sources(ctx, f, tgt.slice)
            vp, va, vcalls = value_sources(ctx, f, st.value)
            missing = sorted((set(vp) & set(params)) - set(kp))
            self_missing = []
            if kind in ("class", "module") and f.self_name:
                pre = f.self_name + "."
                self_missing = sorted(a for a in va if a.startswith(pre) and a not in ka and a != cname and not a[len(pre):].startswith("_abc")
                                      and ctx.repo.lookup_method(f.cls, a[len(pre):].split(".")[0]) is None)
            if not missing and not self_missing:
                continue
            # only values that are *computed* (not the parameter object itself stored for later look-up by identity)
            if not vcalls and isinstance(st.value, ast.Name):
                continue
            what = []
            if missing:
                what.append(f"parameter(s) {missing}")
            if self_missing:
                what.append(f"instance attribute(s) {self_missing}")
            scope = {"module": "a module-level container", "class": "a class-level container shared by all instances",
                     "instance": "an attribute of the object"}[kind]
            out.append((f, st, f"`{norm(st)[:80]}` memoises a value computed from {' and '.join(what)} in {scope} under a key that does not "
                               f"depend on them: a later call with another value of these inputs gets the stale result"))
    return out


def stale_loop_carry(ctx, funcs: Iterable[FunctionInfo]) -> List[Tuple[FunctionInfo, ast.AST, str]]:
    out = []
    for f in funcs:
        cfg = None
        for loop in walk_shallow(f.node):
            if not isinstance(loop, ast.For):
                continue
            lvars = {n.id for n in ast.walk(loop.target) if isinstance(n, ast.Name)}
            if not lvars:
                continue
            # conditional definitions directly in an `if` of the loop body (any depth), value depends on the loop variable
            for cond in [n for b in loop.body for n in [b] + list(walk_shallow(b)) if isinstance(n, ast.If)]:
                if any(isinstance(a, (ast.For, ast.While)) and contains(loop, a) and a is not loop and contains(a, cond) for a in _ancestors(cond)):
                    continue        # belongs to an inner loop
                cand = []
                for s_ in [s for s in cond.body for s in [s] + list(walk_shallow(s)) if isinstance(s, ast.Assign) and len(s.targets) == 1]:
                    t_ = s_.targets[0]
                    if isinstance(t_, ast.Name):
                        cand.append((s_, t_.id))
                    elif isinstance(t_, (ast.Tuple, ast.List)):
                        cand += [(s_, e.id) for e in t_.elts if isinstance(e, ast.Name) and e.id != "_"]
                for d, v in cand:
                    if v in lvars:
                        continue
                    if cfg is None:
                        cfg = ctx.cfg(f)
                    vp, va, _ = value_sources(ctx, f, d.value)
                    names_in_value = {n.id for n in ast.walk(d.value) if isinstance(n, ast.Name)}
                    if not (names_in_value & lvars) and not any(a.split(".")[0] in lvars for a in va):
                        continue
                    if v in names_in_value:
                        continue        # an accumulator updated from its own previous value is carried on purpose
                    # other definitions of v inside the loop body
                    other = [s for b in loop.body for s in [b] + list(walk_shallow(b))
                             if isinstance(s, (ast.Assign, ast.AugAssign, ast.For, ast.With)) and s is not d and _binds(s, v)]
                    in_else = [s for s in other if any(contains(e, s) for e in cond.orelse)]
                    if in_else:
                        continue
                    # re-bound on every iteration before the condition?  (a definition that dominates `cond` inside the loop)
                    if any(contains(loop, s) and not contains(cond, s) and cfg.dominates(s, cond) for s in other):
                        continue
                    # a read of v in the loop body after the condition, outside of it
                    uses = [n for b in loop.body for n in ast.walk(b) if isinstance(n, ast.Name) and n.id == v and isinstance(n.ctx, ast.Load)
                            and not contains(cond, n)]
                    uses = [u for u in uses if (stmt_of(cfg, u) is not None and cfg.reachable_after(cond, stmt_of(cfg, u)))]
                    # only a read that is not itself guarded by the same test
                    uses = [u for u in uses if not any(isinstance(a, ast.If) and ast.dump(a.test) == ast.dump(cond.test) and contains(loop, a)
                                                       for a in _ancestors(u))]
                    if not uses:
                        continue
                    # is v initialised before the loop (so that the first iteration is fine and the bug is silent)?
                    pre = [s for s in cfg.stmts() if isinstance(s, ast.Assign) and _binds(s, v) and not contains(loop, s) and cfg.dominates(s, loop)]
                    if not pre:
                        continue
                    u = uses[0]
                    out.append((f, d, f"`{v}` is bound to a value of this iteration's `{'/'.join(sorted(lvars))}` only when `{ast.unparse(cond.test)[:50]}` "
                                      f"holds, is read at line {u.lineno} outside that condition, and is reset only before the loop "
                                      f"(`{norm(pre[-1])[:40]}`): an iteration where the condition is false uses the value of an earlier element"))
    return out


def _binds(s, v) -> bool:
    if isinstance(s, ast.Assign):
        return any(isinstance(n, ast.Name) and n.id == v for t in s.targets for n in ast.walk(t) if isinstance(n, ast.Name) and isinstance(n.ctx, ast.Store))
    if isinstance(s, ast.AugAssign):
        return isinstance(s.target, ast.Name) and s.target.id == v
    if isinstance(s, ast.For):
        return any(isinstance(n, ast.Name) and n.id == v for n in ast.walk(s.target))
    if isinstance(s, ast.With):
        return any(i.optional_vars is not None and any(isinstance(n, ast.Name) and n.id == v for n in ast.walk(i.optional_vars)) for i in s.items)
    return False


def _ancestors(n):
    p = parent(n)
    while p is not None:
        yield p
        p = parent(p)


def mutable_default_argument(ctx, funcs: Iterable[FunctionInfo]) -> List[Tuple[FunctionInfo, ast.AST, str]]:
    """`def f(x=[])` / `{}` / `set()` whose default object is mutated in the body (directly, through an alias, or by handing it to
    a mutating method): the default is created once, so one call's writes are visible to every later call."""
    out = []
    for f in funcs:
        a = f.node.args
        pos = a.posonlyargs + a.args
        pairs = list(zip(pos[len(pos) - len(a.defaults):], a.defaults)) + [(p, d) for p, d in zip(a.kwonlyargs, a.kw_defaults) if d is not None]
        for p, d in pairs:
            if not _is_mutable_display(d):
                continue
            nm = p.arg
            # re-bound before any use (`x = x or {}` is not enough: the default object itself is truthy-empty, `x = dict(x)` is)
            for w in walk_shallow(f.node):
                hit = None
                if isinstance(w, (ast.Assign, ast.AugAssign)):
                    for t in (w.targets if isinstance(w, ast.Assign) else [w.target]):
                        if isinstance(t, ast.Subscript) and isinstance(t.value, ast.Name) and t.value.id == nm:
                            hit = w
                        if isinstance(w, ast.AugAssign) and isinstance(t, ast.Name) and t.id == nm and isinstance(d, (ast.List, ast.ListComp)):
                            hit = w
                elif isinstance(w, ast.Call) and isinstance(w.func, ast.Attribute) and w.func.attr in MUTATORS \
                        and isinstance(w.func.value, ast.Name) and w.func.value.id == nm:
                    hit = w
                if hit is None:
                    continue
                # the write must be able to reach the default object: no unconditional re-binding of the name dominates it
                cfg = ctx.cfg(f)
                st = stmt_of(cfg, hit) if not isinstance(hit, ast.stmt) else hit
                rebinds = [s for s in cfg.stmts() if isinstance(s, ast.Assign) and any(isinstance(t, ast.Name) and t.id == nm for t in s.targets)
                           and not (isinstance(s.value, ast.BoolOp) and isinstance(s.value.op, ast.Or)
                                    and any(isinstance(v, ast.Name) and v.id == nm for v in s.value.values))
                           and not (isinstance(s.value, ast.Name) and s.value.id == nm)]
                if st is not None and any(cfg.dominates(s, st) for s in rebinds if s is not st):
                    continue
                out.append((f, d, f"parameter `{nm}` has the mutable default `{ast.unparse(d)}` and `{norm(hit)[:60]}` writes into it: the default "
                                  f"object is shared by all calls, so one call's entries are seen by the next"))
                break
    return out


def late_binding_closure(ctx, funcs: Iterable[FunctionInfo]) -> List[Tuple[FunctionInfo, ast.AST, str]]:
    """A lambda / nested def created inside a loop reads the loop variable and is *stored* (appended, put into a dict, assigned to
    an attribute) instead of being called in the same iteration: when it is called later every closure sees the LAST value."""
    out = []
    for f in funcs:
        for loop in walk_shallow(f.node):
            if not isinstance(loop, (ast.For, ast.While)):
                continue
            lvars = {n.id for n in ast.walk(loop.target) if isinstance(n, ast.Name)} if isinstance(loop, ast.For) else set()
            if not lvars:
                continue
            for lam in [n for b in loop.body for n in ast.walk(b) if isinstance(n, ast.Lambda)]:
                params = {x.arg for x in lam.args.posonlyargs + lam.args.args + lam.args.kwonlyargs}
                defaults_bind = {ast.unparse(d) for d in lam.args.defaults + [k for k in lam.args.kw_defaults if k is not None]}
                free = {n.id for n in ast.walk(lam.body) if isinstance(n, ast.Name) and isinstance(n.ctx, ast.Load)} - params
                captured = (free & lvars) - defaults_bind
                if not captured:
                    continue
                par = parent(lam)
                stored = False
                if isinstance(par, ast.Call) and lam in par.args and isinstance(par.func, ast.Attribute) and par.func.attr in ("append", "insert", "setdefault", "add"):
                    stored = True
                if isinstance(par, ast.Assign) and par.value is lam and any(isinstance(t, (ast.Subscript, ast.Attribute)) for t in par.targets):
                    stored = True
                if isinstance(par, (ast.Dict, ast.List, ast.Tuple)):
                    stored = True
                if stored:
                    out.append((f, lam, f"`{ast.unparse(lam)[:60]}` is created in a loop, reads the loop variable {sorted(captured)} and is stored for "
                                        f"later: all stored closures will see the last value of {sorted(captured)}"))
    return out


_COMP = (ast.ListComp, ast.DictComp, ast.SetComp, ast.GeneratorExp)


def _bound_by_inner_scope(u: ast.Name, fnode) -> bool:
    """the load is bound by a comprehension target or a lambda parameter, not by the function's own scope"""
    for a in _ancestors(u):
        if a is fnode:
            return False
        if isinstance(a, _COMP) and any(isinstance(x, ast.Name) and x.id == u.id for g in a.generators for x in ast.walk(g.target)):
            return True
        if isinstance(a, ast.Lambda) and u.id in {x.arg for x in a.args.posonlyargs + a.args.args + a.args.kwonlyargs}:
            return True
    return False


def loop_scoped_value_in_later_loop(ctx, funcs: Iterable[FunctionInfo]) -> List[Tuple[FunctionInfo, ast.AST, str]]:
    """A name read inside the body of a loop L2 while EVERY definition that reaches the read lies inside another loop L1 that is
    already finished (L1 and L2 disjoint): each iteration of L2 sees the value of L1's last iteration (or nothing, if L1 was empty).
    A definition outside L1 that also reaches the read (an initialisation, a re-binding in L2) silences the lint."""
    out = []
    for f in funcs:
        loops = [n for n in walk_shallow(f.node) if isinstance(n, (ast.For, ast.While))]
        if len(loops) < 2:
            continue
        rd = cfg = None
        seen = set()
        for L2 in loops:
            for u in [n for b in L2.body for n in ast.walk(b) if isinstance(n, ast.Name) and isinstance(n.ctx, ast.Load)]:
                inner = next((a for a in _ancestors(u) if isinstance(a, (ast.For, ast.While, ast.FunctionDef, ast.AsyncFunctionDef, ast.Lambda, ast.ClassDef))), None)
                if inner is not L2 or u.id in seen or _bound_by_inner_scope(u, f.node):
                    continue
                if rd is None:
                    cfg, rd = ctx.cfg(f), ctx.rd(f)
                if stmt_of(cfg, u) is None:
                    continue
                defs = rd.defs_reaching(u)
                if not defs or any(not isinstance(d, ast.stmt) for d in defs):
                    continue
                for L1 in loops:
                    if L1 is L2 or contains(L1, L2) or contains(L2, L1) or not isinstance(L1, ast.For):
                        continue
                    if all(d is L1 or any(contains(b, d) for b in L1.body) for d in defs) and L1.end_lineno < L2.lineno:
                        seen.add(u.id)
                        out.append((f, u, f"`{u.id}` is read at line {u.lineno} inside the loop `{norm(L2)[:50]}`, but every definition that reaches it "
                                          f"lies in the earlier, finished loop `{norm(L1)[:50]}` (line {L1.lineno}): each iteration sees the value "
                                          f"left by that loop's last iteration"))
                        break
    return out


def local_memo_key(ctx, funcs: Iterable[FunctionInfo]) -> List[Tuple[FunctionInfo, ast.AST, str]]:
    """A per-call memo `m = {}` that is consulted with `K in m` / `K not in m` and filled with `m[K] = V` where K is ONE attribute
    `x.a` of an object and V is computed from `x` itself (beyond `x.a`): two objects that agree on `.a` but differ otherwise share an
    entry."""
    out = []
    for f in funcs:
        local = set()
        for n in walk_shallow(f.node):
            if isinstance(n, ast.Assign) and len(n.targets) == 1 and isinstance(n.targets[0], ast.Name) and (
                    (isinstance(n.value, ast.Dict) and not n.value.keys)
                    or (isinstance(n.value, ast.Call) and isinstance(n.value.func, ast.Name) and n.value.func.id == "dict" and not n.value.args and not n.value.keywords)):
                local.add(n.targets[0].id)
        if not local:
            continue
        for n in walk_shallow(f.node):
            if not (isinstance(n, ast.Assign) and len(n.targets) == 1 and isinstance(n.targets[0], ast.Subscript)
                    and isinstance(n.targets[0].value, ast.Name) and n.targets[0].value.id in local):
                continue
            m, K = n.targets[0].value.id, n.targets[0].slice
            if not (isinstance(K, ast.Attribute) and isinstance(K.value, ast.Name)):
                continue
            kt = ast.unparse(K)
            guarded = any(isinstance(c, ast.Compare) and len(c.ops) == 1 and isinstance(c.ops[0], (ast.In, ast.NotIn))
                          and isinstance(c.comparators[0], ast.Name) and c.comparators[0].id == m and ast.unparse(c.left) == kt
                          for c in walk_shallow(f.node))
            if not guarded:
                continue
            x = K.value.id
            other = [u for u in ast.walk(n.value) if isinstance(u, ast.Name) and u.id == x
                     and not (isinstance(parent(u), ast.Attribute) and parent(u).attr == K.attr)]
            if other:
                out.append((f, n, f"the per-call memo `{m}` is keyed by `{kt}` but `{norm(n)[:70]}` stores a value computed from `{x}` itself: "
                                  f"another `{x}` with the same `.{K.attr}` gets the first one's entry"))
    return out


def class_level_mutable_state(ctx, classes) -> List[Tuple[object, ast.AST, str]]:
    """A class attribute bound to a mutable display in the class body and written THROUGH `self.<attr>` (item store, mutator call) in
    a method while no method ever binds `self.<attr> = ...` and nothing in the package refers to it through the class
    (`Cls.attr` / `cls.attr` / `type(self).attr`): it is used as per-instance state but is one container shared by all instances.
    Returns (ClassInfo, class-level statement, why)."""
    out = []
    for c in classes:
        for s in c.node.body:
            tgt = val = None
            if isinstance(s, ast.Assign) and len(s.targets) == 1 and isinstance(s.targets[0], ast.Name):
                tgt, val = s.targets[0].id, s.value
            elif isinstance(s, ast.AnnAssign) and isinstance(s.target, ast.Name) and s.value is not None:
                tgt, val = s.target.id, s.value
            if tgt is None or not _is_mutable_display(val):
                continue
            rebound, writes = False, []
            family = [c] + [k for k in ctx.repo.subclasses(c, strict=True)] + [b for b in c.mro[1:] if hasattr(b, "methods")]
            for k in family:
                for m in k.methods.values():
                    sn = m.self_name
                    if not sn:
                        continue
                    for n in ast.walk(m.node):
                        if isinstance(n, ast.Attribute) and n.attr == tgt and isinstance(n.value, ast.Name) and n.value.id == sn:
                            p = parent(n)
                            if isinstance(n.ctx, ast.Store):
                                rebound = True
                            elif isinstance(p, ast.Subscript) and p.value is n and isinstance(p.ctx, (ast.Store, ast.Del)):
                                writes.append((m, n))
                            elif isinstance(p, ast.Attribute) and p.attr in MUTATORS and isinstance(parent(p), ast.Call) and parent(p).func is p:
                                writes.append((m, n))
            if writes and not rebound:
                # referenced through a class (`Cls.attr`, `cls.attr`, `type(self).attr`) anywhere in the package: shared on purpose
                fam_names = {k.name for k in family} | {"cls"}
                via_class = False
                for mod in ctx.repo.by_rel.values():
                    for n in ast.walk(mod.tree):
                        if isinstance(n, ast.Attribute) and n.attr == tgt and (
                                (isinstance(n.value, ast.Name) and n.value.id in fam_names)
                                or (isinstance(n.value, ast.Attribute) and n.value.attr in fam_names | {"__class__"})
                                or (isinstance(n.value, ast.Call) and isinstance(n.value.func, ast.Name) and n.value.func.id == "type")):
                            via_class = True
                if via_class:
                    continue
                m, n = writes[0]
                out.append((c, s, f"`{c.name}.{tgt}` is created once in the class body (`{norm(s)[:50]}`) and written through `self.{tgt}` in "
                                  f"`{m.qualname}` (line {n.lineno}); no method binds `self.{tgt}` and nothing refers to it through the class, "
                                  f"so what is used as per-instance state is one container shared by all instances"))
    return out


def _is_none_default_lookup(c) -> bool:
    if isinstance(c, ast.Call) and isinstance(c.func, ast.Attribute) and not c.keywords:
        none2 = len(c.args) == 2 and isinstance(c.args[1], ast.Constant) and c.args[1].value is None
        return (c.func.attr == "get" and (len(c.args) == 1 or none2)) or (c.func.attr == "pop" and none2)
    return False


def truthiness_of_optional_lookup(ctx, funcs: Iterable[FunctionInfo]) -> List[Tuple[FunctionInfo, ast.AST, str, ast.AST]]:
    """Sites where the result of `d.get(k)` / `d.get(k, None)` / `d.pop(k, None)` is tested by TRUTHINESS (`lookup or default`,
    `if name:` / `x if name else y` for a local bound to such a lookup): "absent" and "present but falsy (0, 0.0, empty)" are not told
    apart.  Whether that is a defect depends on the key's value domain, so this is NOISY on the whole package (about a dozen legitimate
    option lookups on /repo): callers filter by the role of the key.  Returns (f, site, why, lookup call)."""
    out = []
    for f in funcs:
        lookups = {}
        for n in walk_shallow(f.node):
            if isinstance(n, ast.BoolOp) and isinstance(n.op, ast.Or) and _is_none_default_lookup(n.values[0]):
                out.append((f, n, f"`{ast.unparse(n)[:70]}` falls back to the default for every falsy stored value", n.values[0]))
            if isinstance(n, ast.Assign) and len(n.targets) == 1 and isinstance(n.targets[0], ast.Name) and _is_none_default_lookup(n.value):
                lookups.setdefault(n.targets[0].id, []).append(n)
        if not lookups:
            continue
        for n in walk_shallow(f.node):
            tests = []
            if isinstance(n, (ast.If, ast.IfExp, ast.While)):
                t = n.test
                t = t.operand if isinstance(t, ast.UnaryOp) and isinstance(t.op, ast.Not) else t
                tests = [t] + (list(t.values) if isinstance(t, ast.BoolOp) else [])
            elif isinstance(n, ast.BoolOp) and isinstance(n.op, ast.Or):
                tests = [n.values[0]]
            for t in tests:
                t = t.operand if isinstance(t, ast.UnaryOp) and isinstance(t.op, ast.Not) else t
                if isinstance(t, ast.Name) and t.id in lookups:
                    d = lookups[t.id][0]
                    out.append((f, n, f"`{t.id}` = `{ast.unparse(d.value)[:50]}` is tested by truthiness at line {n.lineno}: a present but falsy "
                                      f"value is treated as absent", d.value))
    return out


_ORDER_FREE_CONSUMERS = ("len", "any", "all", "sum", "min", "max", "sorted", "set", "frozenset", "bool", "isinstance")


def _is_set_ctor(e) -> bool:
    if isinstance(e, (ast.Set, ast.SetComp)):
        return True
    if isinstance(e, ast.Call) and isinstance(e.func, ast.Name) and e.func.id in ("set", "frozenset"):
        return True
    if isinstance(e, ast.BinOp) and isinstance(e.op, (ast.BitOr, ast.BitAnd, ast.Sub, ast.BitXor)) and (_is_set_ctor(e.left) or _is_set_ctor(e.right)):
        return True
    return False


def set_order_dependence(ctx, funcs: Iterable[FunctionInfo]) -> List[Tuple[FunctionInfo, ast.AST, str]]:
    """An ORDERED result built from the iteration order of a set: `for x in S` whose body appends to a list / concatenates a string
    / numbers the elements, `list(S)` / `tuple(S)` / `enumerate(S)` / `zip(S, ..)` / `sep.join(S)`, where S is a set display, a
    `set(...)` / `frozenset(...)` call, a set comprehension, a set-algebra expression, or a local whose every reaching definition is
    one.  The order of a set of strings differs from process to process (hash randomisation) and never is the insertion order.
    Silent when the set goes through `sorted(...)` or an order-free consumer (len/any/all/sum/min/max/set), or when the loop body
    only performs membership-style updates (dict/set stores, `.pop`, `.discard`)."""
    out = []
    for f in funcs:
        rd = None

        def is_set(e):
            nonlocal rd
            if _is_set_ctor(e):
                return True
            if isinstance(e, ast.Name) and not _bound_by_inner_scope(e, f.node):
                if rd is None:
                    rd = ctx.rd(f)
                if stmt_of(ctx.cfg(f), e) is None:
                    return False
                defs = rd.defs_reaching(e)
                if not defs:
                    return False
                from engine.dataflow import assigned_value
                vals = [assigned_value(d, e.id) if isinstance(d, ast.stmt) else None for d in defs]
                return all(v is not None and _is_set_ctor(v) for v in vals)
            return False
        for n in walk_shallow(f.node):
            why = None
            if isinstance(n, ast.For) and is_set(n.iter):
                ordered = None
                for b in n.body:
                    for w in ast.walk(b):
                        if isinstance(w, ast.Call) and isinstance(w.func, ast.Attribute) and w.func.attr in ("append", "extend", "insert") \
                                and isinstance(w.func.value, ast.Name):
                            ordered = w
                        if isinstance(w, ast.AugAssign) and isinstance(w.op, ast.Add) and isinstance(w.target, ast.Name) \
                                and isinstance(w.value, (ast.JoinedStr, ast.List, ast.Constant)) and not isinstance(getattr(w.value, "value", None), (int, float)):
                            ordered = w
                if ordered is not None:
                    why = (f"`{norm(n)[:50]}` iterates a set and `{norm(ordered)[:50]}` builds an ordered result from it")
            elif isinstance(n, ast.Call) and n.args and is_set(n.args[0]):
                cn = call_name(n)
                par = parent(n)
                consumer = call_name(par) if isinstance(par, ast.Call) else None
                if isinstance(n.func, ast.Name) and cn in ("list", "tuple", "enumerate", "zip") and consumer not in _ORDER_FREE_CONSUMERS:
                    why = f"`{ast.unparse(n)[:60]}` fixes the arbitrary iteration order of a set into a sequence"
                elif isinstance(n.func, ast.Attribute) and cn == "join" and isinstance(n.func.value, (ast.Constant, ast.Name)):
                    why = f"`{ast.unparse(n)[:60]}` joins the elements of a set in its arbitrary iteration order"
            if why:
                out.append((f, n, why + ": the order of a set (of strings: per process, hash randomisation) is not the insertion order"))
    return out


def deepcopy_shared_memo(ctx, funcs: Iterable[FunctionInfo]) -> List[Tuple[FunctionInfo, ast.AST, str]]:
    """`copy.deepcopy(x, memo)` inside a loop with a memo dictionary that is NOT re-created in every iteration: deepcopy returns the
    copy it made before for every object it meets again, so the copies of different iterations share all the objects their sources
    have in common - a write through one copy shows up in the others.  (Inside `__deepcopy__(self, memo)` passing the received memo
    on is the protocol and is not reported.)"""
    out = []
    for f in funcs:
        if f.name == "__deepcopy__":
            continue
        rd = None
        for c in walk_shallow(f.node):
            if not (isinstance(c, ast.Call) and call_name(c) == "deepcopy"):
                continue
            memo = c.args[1] if len(c.args) >= 2 else next((k.value for k in c.keywords if k.arg == "memo"), None)
            if not isinstance(memo, ast.Name):
                continue
            loops = [a for a in _ancestors(c) if isinstance(a, (ast.For, ast.While) + _COMP)]
            if not loops:
                continue
            if rd is None:
                rd = ctx.rd(f)
            if stmt_of(ctx.cfg(f), memo) is None:
                continue
            defs = rd.defs_reaching(memo)
            inner = loops[0]
            if isinstance(inner, _COMP) and defs:
                out.append((f, c, f"`{ast.unparse(c)[:70]}` runs for every element of `{ast.unparse(inner)[:40]}` with one memo `{memo.id}`: an object "
                                  f"that two elements have in common is copied once and shared by both results"))
            elif defs and all(isinstance(d, ast.stmt) and not contains(inner, d) for d in defs):
                out.append((f, c, f"`{ast.unparse(c)[:70]}` runs in the loop `{norm(inner)[:40]}` with the memo `{memo.id}` created outside it: an object "
                                  f"that two iterations' sources have in common is copied once and shared by both results"))
    return out


_ROUNDERS = ("round", "rint", "floor", "ceil", "around", "trunc", "fix")
# sites on the pinned tree that were read and are not part of any property's mechanism (one line of reason each)
TRUNCATION_TRIAGED = {
    ("pyrates/utility.py", "tmin = int(tmin / dt)"): "first row shown by an interactive plotting helper; no simulation or code generation depends on it",
}


def _has_true_division(e) -> bool:
    """a true division that takes part in the arithmetic of e (through + - * ** and unary signs), not hidden inside a call"""
    if isinstance(e, ast.BinOp):
        if isinstance(e.op, ast.Div):
            return True
        if isinstance(e.op, (ast.Add, ast.Sub, ast.Mult, ast.Pow)):
            return _has_true_division(e.left) or _has_true_division(e.right)
    if isinstance(e, ast.UnaryOp):
        return _has_true_division(e.operand)
    return False


def truncated_quotient(ctx, funcs: Iterable[FunctionInfo]) -> List[Tuple[FunctionInfo, ast.AST, str]]:
    """`int(a / b)` / `(a / b).astype(int)` / `np.int64(a / b)`: a float quotient cut to an integer by TRUNCATION.  Quotients of decimal
    literals routinely land one ulp below the integer they stand for (0.7 / 1e-3 = 699.9999999999999, 0.3 / 0.1 = 2.9999999999999996),
    so the count / index comes out one too small exactly for such inputs, while `round` / `np.round` / `np.rint` give the intended
    integer and an explicit `floor` / `ceil` / `//` states a deliberate choice.  Reported when no rounding function is applied
    between the division and the conversion."""
    out = []
    for f in funcs:
        for c in walk_shallow(f.node):
            if not isinstance(c, ast.Call):
                continue
            arg = None
            cn = call_name(c)
            if isinstance(c.func, ast.Name) and cn == "int" and len(c.args) == 1:
                arg = c.args[0]
            elif isinstance(c.func, ast.Attribute) and cn in ("int32", "int64", "int_", "intp") and len(c.args) == 1:
                arg = c.args[0]
            elif isinstance(c.func, ast.Attribute) and cn == "astype" and c.args and (
                    (isinstance(c.args[0], ast.Name) and c.args[0].id == "int")
                    or (isinstance(c.args[0], ast.Attribute) and c.args[0].attr.startswith("int"))
                    or (isinstance(c.args[0], ast.Constant) and isinstance(c.args[0].value, str) and c.args[0].value.startswith("int"))):
                arg = c.func.value
            if arg is None or not _has_true_division(arg):
                continue
            st = c
            while parent(st) is not None and not isinstance(st, ast.stmt):
                st = parent(st)
            if (f.module.rel, norm(st)) in TRUNCATION_TRIAGED:
                continue
            out.append((f, c, f"`{ast.unparse(c)[:60]}` truncates a float quotient: when the quotient of two decimal values lands one ulp below an "
                              f"integer (0.7/1e-3, 0.3/0.1) the result is one too small; round first (`int(np.round(..))`) or state the floor explicitly"))
    return out


def implicit_relative_tolerance(ctx, funcs: Iterable[FunctionInfo]) -> List[Tuple[FunctionInfo, ast.AST, str]]:
    """`np.allclose(a, b, atol=tol)` / `np.isclose(..., atol=tol)` / `math.isclose(..., abs_tol=tol)` with an explicit ABSOLUTE tolerance
    but no relative one: the default relative tolerance (rtol=1e-5, rel_tol=1e-9) still applies and, for values of order 1, is the
    larger of the two - the comparison accepts far more than the tolerance the call site names."""
    out = []
    for f in funcs:
        for c in walk_shallow(f.node):
            if not isinstance(c, ast.Call):
                continue
            cn = call_name(c)
            kws = {k.arg for k in c.keywords}
            if cn in ("allclose", "isclose") and isinstance(c.func, ast.Attribute):
                npos = len(c.args)
                has_atol = "atol" in kws or npos >= 4
                has_rtol = "rtol" in kws or npos >= 3
                if "abs_tol" in kws and "rel_tol" not in kws:
                    out.append((f, c, f"`{ast.unparse(c)[:70]}` names abs_tol only: math.isclose still applies rel_tol=1e-9"))
                elif has_atol and not has_rtol:
                    out.append((f, c, f"`{ast.unparse(c)[:70]}` names an absolute tolerance only: the default rtol=1e-5 still applies and exceeds it for "
                                      f"values of order 1, so the comparison is about 1e-5 wide whatever atol says"))
    return out


def attribute_keyed_memo(ctx, funcs: Iterable[FunctionInfo]) -> List[Tuple[FunctionInfo, ast.AST, str]]:
    """A memo table M (a local or a parameter) that is consulted under a key K (`M[K]`, `K in M`, `M.get(K)`) and filled with
    `M[K] = V`, where K is built ONLY from attributes of one object x (`x.name`, `(type(x), x.name, x.path)`) and V is computed from x
    itself: two objects that agree on those attributes but differ otherwise (copies with different contents under the same name)
    share one entry.  Keys that contain `x` itself or `id(x)` are fine.  NOT armed generically (role-filtered use only)."""
    out = []
    for f in funcs:
        rd = None
        for st in walk_shallow(f.node):
            if not isinstance(st, ast.Assign):
                continue
            tgt = next((t for t in st.targets if isinstance(t, ast.Subscript) and isinstance(t.value, ast.Name)), None)
            if tgt is None:
                continue
            m, K = tgt.value.id, tgt.slice
            kexpr = K
            if isinstance(K, ast.Name):
                if rd is None:
                    rd = ctx.rd(f)
                from engine.dataflow import assigned_value
                if stmt_of(ctx.cfg(f), K) is None:
                    continue
                defs = rd.defs_reaching(K)
                vals = [assigned_value(d, K.id) for d in defs if isinstance(d, ast.stmt)]
                if len(vals) != 1 or vals[0] is None:
                    continue
                kexpr = vals[0]
            parts = list(kexpr.elts) if isinstance(kexpr, ast.Tuple) else [kexpr]
            objs = set()
            only_attrs = True
            for p_ in parts:
                if isinstance(p_, ast.Attribute) and isinstance(p_.value, ast.Name):
                    objs.add(p_.value.id)
                elif isinstance(p_, ast.Call) and isinstance(p_.func, ast.Name) and p_.func.id == "type" and len(p_.args) == 1 \
                        and isinstance(p_.args[0], ast.Name):
                    objs.add(p_.args[0].id)
                else:
                    only_attrs = False
            if not only_attrs or len(objs) != 1 or not any(isinstance(p_, ast.Attribute) for p_ in parts):
                continue
            x = next(iter(objs))
            ktxt = ast.unparse(K)
            consulted = any((isinstance(n, ast.Subscript) and isinstance(n.value, ast.Name) and n.value.id == m and isinstance(n.ctx, ast.Load)
                             and ast.unparse(n.slice) == ktxt)
                            or (isinstance(n, ast.Compare) and len(n.ops) == 1 and isinstance(n.ops[0], (ast.In, ast.NotIn))
                                and isinstance(n.comparators[0], ast.Name) and n.comparators[0].id == m and ast.unparse(n.left) == ktxt)
                            or (isinstance(n, ast.Call) and isinstance(n.func, ast.Attribute) and n.func.attr == "get" and isinstance(n.func.value, ast.Name)
                                and n.func.value.id == m and n.args and ast.unparse(n.args[0]) == ktxt)
                            for n in walk_shallow(f.node))
            if not consulted:
                continue
            whole = [u for u in ast.walk(st.value) if isinstance(u, ast.Name) and u.id == x and not isinstance(parent(u), ast.Attribute)]
            if whole:
                out.append((f, st, f"the memo `{m}` is keyed by `{ast.unparse(kexpr)[:60]}` - attributes of `{x}` only - while `{norm(st)[:60]}` stores a value "
                                   f"computed from `{x}` itself: another `{x}` with the same attributes but different contents gets the first one's entry"))
    return out
